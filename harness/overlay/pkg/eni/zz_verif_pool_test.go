package eni

// Model-based stateful harness for the daemon's local pool (properties C01, C06, C07).
// Real Manager + real Locals (optionally a Trunk wrapper and an erdma Local) run over the
// cloudsim factory; generated histories of concurrent rounds are executed and checked
// against an interval ledger (C01), call-time monitors (C06) and a quiescent-state
// comparison pool <-> cloud (C07). See /verif/DESIGN.md section 3.

import (
	"context"
	"fmt"
	"net/netip"
	"sort"
	"strings"
	"sync"
	"sync/atomic"
	"testing"
	"time"

	"golang.org/x/time/rate"
	"k8s.io/apimachinery/pkg/util/cache"
	"pgregory.net/rapid"

	"github.com/AliyunContainerService/terway/types"
	"github.com/AliyunContainerService/terway/types/daemon"
	"github.com/AliyunContainerService/terway/zz_verif/cloudsim"
	"github.com/AliyunContainerService/terway/zz_verif/vt"
)

// ------------------------------------------------------------------ scenario

type vpPreENI struct {
	Type  string `json:"type"` // secondary | trunk | erdma
	N4    int    `json:"n4"`
	N6    int    `json:"n6"`
	Bound []int  `json:"bound,omitempty"`  // pods that have a stored record on address #i (non-primary first)
	Legacy bool  `json:"legacy,omitempty"` // stored records use the legacy "mac.ip" id form
	// AsSecondary (type trunk only): the interface IS a trunk interface in the cloud, but the
	// daemon runs it as an ordinary secondary one (trunking disabled, or not the preferred
	// trunk: daemon/builder.go builds it with NewLocal(ni, "secondary", ...)). It must still
	// never be deleted.
	AsSecondary bool `json:"as_secondary,omitempty"`
}

type vpCfg struct {
	V4      bool       `json:"v4"`
	V6      bool       `json:"v6"`
	Cap     int        `json:"cap"`
	Batch   int        `json:"batch"`
	MinIdle int        `json:"min_idle"`
	MaxIdle int        `json:"max_idle"`
	Slots   int        `json:"slots"`       // empty secondary interfaces
	Erdma   int        `json:"erdma_slots"` // empty erdma interfaces
	Pre     []vpPreENI `json:"pre,omitempty"`
	Policy  string     `json:"policy,omitempty"`
}

type vpOp struct {
	Kind     string           `json:"kind"`
	Pod      int              `json:"pod,omitempty"`
	A        int              `json:"a,omitempty"`
	B        int              `json:"b,omitempty"`
	V6       bool             `json:"v6,omitempty"`
	JitterUS int              `json:"jitter_us,omitempty"`
	CancelUS int              `json:"cancel_us,omitempty"` // alloc: cancel the request after this many microseconds (0 = never)
	Faults   []cloudsim.Fault `json:"faults,omitempty"`
	// Stale (alloc): the pod holds nothing, but its stored record survived its DEL (the pool
	// release is followed by the record delete, which failed): the request names the
	// interface and addresses of that record, as daemon.setRequest fills them in
	Stale bool `json:"stale,omitempty"`
}

type vpScenario struct {
	Cfg    vpCfg    `json:"cfg"`
	Rounds [][]vpOp `json:"rounds"`
	Mode   string   `json:"mode"` // which verdict group is asserted: C01 | C06 | C07
	// LoadDelayUS: the metadata lookup of the periodic sync takes this long (widens the
	// window in which a sync overlaps an assign on the same interface)
	LoadDelayUS int `json:"load_delay_us,omitempty"`
	// UnassignDelayUS: every unassign call takes this long before it takes effect (a slow
	// cloud: addresses stay "being removed" in the pool while still assigned in the cloud)
	UnassignDelayUS int `json:"unassign_delay_us,omitempty"`
	// CreateDelayUS: every interface creation takes this long (requests can be cancelled
	// while the call is in flight)
	CreateDelayUS int `json:"create_delay_us,omitempty"`
	// BalanceOnArrivalUS > 0: whenever a create / assign call has returned successfully, a
	// few balancer passes follow at this spacing (microseconds): the balancer meets addresses
	// that have just arrived and that the waiting request has not picked up yet
	BalanceOnArrivalUS int `json:"balance_on_arrival_us,omitempty"`
}

const vpPods = 8

var vpCodes = []string{"", "EniPerInstanceLimitExceeded", "InvalidVSwitchId.IpNotEnough", "QuotaExceeded.PrivateIpAddress", "Throttling", "InvalidOperation.Ipv4CountExceeded"}

func vpGenFault(t *rapid.T) cloudsim.Fault {
	kind := rapid.SampledFrom([]string{cloudsim.KCreate, cloudsim.KAssign4, cloudsim.KAssign6, cloudsim.KUnAssign4, cloudsim.KUnAssign6, cloudsim.KDelete, cloudsim.KLoad}).Draw(t, "fkind")
	mode := rapid.SampledFrom([]string{cloudsim.FBefore, cloudsim.FAfter, cloudsim.FPartial}).Draw(t, "fmode")
	if kind == cloudsim.KLoad {
		mode = cloudsim.FBefore
	}
	if (kind == cloudsim.KUnAssign4 || kind == cloudsim.KUnAssign6 || kind == cloudsim.KDelete) && mode == cloudsim.FPartial {
		mode = cloudsim.FAfter
	}
	return cloudsim.Fault{Kind: kind, Mode: mode, Code: rapid.SampledFrom(vpCodes).Draw(t, "fcode"), K: rapid.IntRange(0, 6).Draw(t, "fk")}
}

func vpGenCfg(t *rapid.T, mode string) vpCfg {
	c := vpCfg{}
	// daemon Config.Validate only admits ip_stack ipv4 and dual; IPv6-only is not a
	// configuration terway accepts.
	c.V4 = true
	c.V6 = rapid.IntRange(0, 9).Draw(t, "stack") >= 5
	if mode != "C07" && rapid.IntRange(0, 7).Draw(t, "v6only") == 0 {
		// IPv6-only pool. The daemon's Config.Validate refuses ip_stack ipv6, so this is not a
		// configuration a user can reach; the pool code supports it, though, and the C01/C06
		// oracles hold there, so it is explored as extra coverage. Not in C07 mode: with IPv4
		// disabled the real factory does not report IPv4 addresses, the periodic sync then
		// marks the (unused) primary IPv4 address invalid, which the pool==cloud oracle of C07
		// would have to special-case.
		c.V4, c.V6 = false, true
	}
	maxCap := vt.Scale(6, 16)
	c.Cap = rapid.IntRange(1, maxCap).Draw(t, "cap")
	c.Batch = rapid.IntRange(1, 10).Draw(t, "batch")
	c.MaxIdle = rapid.IntRange(0, 8).Draw(t, "maxidle")
	c.MinIdle = rapid.IntRange(0, c.MaxIdle).Draw(t, "minidle")
	c.Slots = rapid.IntRange(0, vt.Scale(3, 5)).Draw(t, "slots")
	nPre := rapid.IntRange(0, 2).Draw(t, "npre")
	if c.Slots == 0 && nPre == 0 {
		nPre = 1
	}
	hasTrunk := false
	for i := 0; i < nPre; i++ {
		p := vpPreENI{}
		p.Type = rapid.SampledFrom([]string{"secondary", "secondary", "secondary", "trunk", "erdma"}).Draw(t, "ptype")
		if p.Type == "trunk" {
			if hasTrunk {
				p.Type = "secondary"
			}
			hasTrunk = true
		}
		p.N4 = rapid.IntRange(1, c.Cap+1).Draw(t, "n4")
		if c.V6 {
			p.N6 = rapid.IntRange(0, c.Cap+1).Draw(t, "n6")
		}
		nb := rapid.IntRange(0, 3).Draw(t, "nbound")
		for j := 0; j < nb; j++ {
			p.Bound = append(p.Bound, rapid.IntRange(0, vpPods-1).Draw(t, "bpod"))
		}
		p.Legacy = rapid.IntRange(0, 4).Draw(t, "legacy") == 0 && !c.V6
		if p.Type == "trunk" {
			p.AsSecondary = rapid.IntRange(0, 2).Draw(t, "assecondary") == 0
		}
		c.Pre = append(c.Pre, p)
	}
	if rapid.IntRange(0, 4).Draw(t, "erdmaslot") == 0 {
		c.Erdma = 1
	}
	c.Policy = rapid.SampledFrom([]string{"", "most_ips", "least_ips"}).Draw(t, "policy")
	return c
}

func vpGenOp(t *rapid.T, mode string) vpOp {
	// weights per verdict group
	kinds := []string{"alloc", "alloc", "alloc", "alloc", "alloc", "release", "release", "syncpool", "syncpool", "syncstorm", "sync", "drift", "faults", "clearinhibit", "lateworker", "cancelalloc"}
	switch mode {
	case "C06":
		// C06 quantifies over schedules, histories and configurations - not over cloud
		// faults or remote removals, so those actions are not generated in this mode.
		// Remote removals and metadata glitches (the metadata service omits an address that is
		// still assigned) are environment events rather than faults of a call; they are drawn
		// here, rarely, because "never unassigns an address a pod holds" must survive the
		// periodic sync marking a held address invalid.
		kinds = []string{"alloc", "alloc", "alloc", "alloc", "alloc", "release", "release", "release", "syncpool", "syncpool", "syncstorm", "sync", "sync", "cancelalloc", "glitch", "drift", "lateworker"}
	case "C07":
		kinds = append(kinds, "faults", "faults", "cancelalloc", "cancelalloc", "syncpool", "cancelledcreate", "faultedshrink")
	}
	kinds = append(kinds, "slowrelease")
	o := vpOp{Kind: rapid.SampledFrom(kinds).Draw(t, "kind")}
	o.JitterUS = rapid.IntRange(0, 400).Draw(t, "jitter")
	switch o.Kind {
	case "alloc", "release":
		o.Pod = rapid.IntRange(0, vpPods-1).Draw(t, "pod")
		if o.Kind == "alloc" {
			o.Stale = rapid.IntRange(0, 3).Draw(t, "stale") == 0
		}
	case "slowrelease":
		o.Pod = rapid.IntRange(0, vpPods-1).Draw(t, "pod")
		o.A = rapid.IntRange(0, vpPods-1).Draw(t, "otherpod")
		o.B = rapid.IntRange(0, 1).Draw(t, "other")
	case "cancelalloc":
		o.Kind = "alloc"
		o.Pod = rapid.IntRange(0, vpPods-1).Draw(t, "pod")
		o.CancelUS = rapid.IntRange(1, 3000).Draw(t, "cancel")
	case "cancelledcreate":
		// an interface creation that takes long and fails after it took effect, while the
		// request that caused it is cancelled before the call returns
		o.Pod = rapid.IntRange(0, vpPods-1).Draw(t, "pod")
		o.CancelUS = rapid.IntRange(50, 1500).Draw(t, "cancel")
		o.A = o.CancelUS + rapid.IntRange(200, 2500).Draw(t, "createdelay")
		o.Faults = []cloudsim.Fault{{Kind: cloudsim.KCreate, Mode: cloudsim.FAfter, Code: rapid.SampledFrom(vpCodes).Draw(t, "fcode")}}
	case "faultedshrink":
		// balancer passes while the next unassign call of ONE family fails before it takes
		// effect (the other family's call of the same dispose round succeeds)
		fam := cloudsim.KUnAssign4
		if rapid.Bool().Draw(t, "v6") {
			fam = cloudsim.KUnAssign6
		}
		o.Faults = []cloudsim.Fault{{Kind: fam, Mode: cloudsim.FBefore, Code: rapid.SampledFrom(vpCodes).Draw(t, "fcode")}}
		o.A = rapid.IntRange(0, 7).Draw(t, "ms")
	case "lateworker":
		// a request whose pool worker notices the cancellation late: see doLateWorker
		o.Pod = rapid.IntRange(0, vpPods-1).Draw(t, "pod")
		o.A = rapid.IntRange(0, 2000).Draw(t, "retryafter")
		o.CancelUS = rapid.IntRange(50, 4000).Draw(t, "cancel")
	case "syncstorm":
		o.A = rapid.IntRange(0, 7).Draw(t, "ms")
		o.B = rapid.IntRange(0, 59).Draw(t, "gap")
	case "sync":
		o.A = rapid.IntRange(0, 7).Draw(t, "eni")
	case "drift", "glitch":
		o.A = rapid.IntRange(0, 7).Draw(t, "eni")
		o.B = rapid.IntRange(0, 15).Draw(t, "addr")
		o.V6 = rapid.Bool().Draw(t, "v6")
	case "faults":
		n := rapid.IntRange(1, 4).Draw(t, "nf")
		for i := 0; i < n; i++ {
			o.Faults = append(o.Faults, vpGenFault(t))
		}
	}
	return o
}

func vpGen(mode string) func(t *rapid.T) vpScenario {
	return func(t *rapid.T) vpScenario {
		s := vpScenario{Mode: mode, Cfg: vpGenCfg(t, mode)}
		if rapid.IntRange(0, 2).Draw(t, "loaddelay") == 0 {
			s.LoadDelayUS = rapid.IntRange(50, 1500).Draw(t, "loaddelayus")
		}
		if rapid.IntRange(0, 2).Draw(t, "unassigndelay") == 0 {
			s.UnassignDelayUS = rapid.IntRange(100, 3000).Draw(t, "unassigndelayus")
		}
		if mode != "C07" && rapid.IntRange(0, 2).Draw(t, "balarr") == 0 {
			s.BalanceOnArrivalUS = rapid.IntRange(1, 40).Draw(t, "balarrus")
		}
		if rapid.IntRange(0, 2).Draw(t, "createdelay") == 0 {
			s.CreateDelayUS = rapid.IntRange(200, 3000).Draw(t, "createdelayus")
		}
		nr := rapid.IntRange(1, vt.Scale(8, 20)).Draw(t, "rounds")
		for i := 0; i < nr; i++ {
			n := rapid.IntRange(1, 6).Draw(t, "nops")
			var r []vpOp
			for j := 0; j < n; j++ {
				r = append(r, vpGenOp(t, mode))
			}
			s.Rounds = append(s.Rounds, r)
		}
		return s
	}
}

// ------------------------------------------------------------------ world

type vpHold struct {
	pod string
	eni string
}

type vpWorld struct {
	c      *vt.Ctx
	s      vpScenario
	cloud  *cloudsim.Cloud
	mgr    *Manager
	locals []*Local
	ctx    context.Context
	cancel context.CancelFunc
	wg     sync.WaitGroup

	clock atomic.Int64 // logical time

	opCreateDelayUS atomic.Int64 // delay of the next interface creation (cancelledcreate)
	stuckWhat       string
	burst           atomic.Int64 // running balancer bursts started by BalanceOnArrivalUS (a counter, not a WaitGroup: bursts start while the round is being waited for)

	mu       sync.Mutex // ledger lock; order: cloud lock -> ledger lock
	hold     map[netip.Addr]vpHold
	podRes   map[string]*LocalIPResource
	lastRes  map[string]*LocalIPResource
	barredAt map[netip.Addr]int64
	issued   map[netip.Addr]string // address -> interface id the cloud issued it on (from the call log / pre-state)
	fails    []string

	fm              sync.Mutex // guards the flags and counters below
	sawDriftOrFault bool
	oversubscribed  bool
	monitorNearCap  bool
	disposeWhileHeld bool
	faultAfter      bool
	cancelled       bool
	lateWorker      bool
	cancelledCreate bool
	staleRelease    bool
	staleRecord     bool
	slowRelease     bool
	repeatAlloc     bool
	allocOK, allocErr, allocTimeout int
	knownSkipped    int
	noGuard         bool
}

func (w *vpWorld) flag(f func()) {
	w.fm.Lock()
	f()
	w.fm.Unlock()
}

func (w *vpWorld) failf(group string, f string, a ...any) {
	// group = property whose verdict this assertion belongs to
	msg := fmt.Sprintf("[%s] ", group) + fmt.Sprintf(f, a...)
	w.c.Trace("FAIL %s", msg)
	if group != w.s.Mode {
		return // only the verdict group under test reports
	}
	w.mu.Lock()
	w.fails = append(w.fails, msg)
	w.mu.Unlock()
}

func (w *vpWorld) failfLocked(group string, f string, a ...any) {
	msg := fmt.Sprintf("[%s] ", group) + fmt.Sprintf(f, a...)
	w.c.Trace("FAIL %s", msg)
	if group != w.s.Mode {
		return
	}
	w.fails = append(w.fails, msg)
}

func vpPodID(k int) string { return fmt.Sprintf("ns/p%d", k) }

func (w *vpWorld) podIsErdma(k int) bool {
	if k < vpPods-2 {
		return false
	}
	for _, l := range w.locals {
		if l.eniType == "erdma" {
			return true
		}
	}
	return false
}

func vpBuild(c *vt.Ctx, s vpScenario) *vpWorld {
	w := &vpWorld{c: c, s: s, cloud: cloudsim.New(),
		hold: map[netip.Addr]vpHold{}, podRes: map[string]*LocalIPResource{}, lastRes: map[string]*LocalIPResource{},
		barredAt: map[netip.Addr]int64{}, issued: map[netip.Addr]string{}}
	w.cloud.NoV4 = !s.Cfg.V4
	w.cloud.NoV6 = !s.Cfg.V6
	cfg := s.Cfg
	pc := &daemon.PoolConfig{EnableIPv4: cfg.V4, EnableIPv6: cfg.V6, MaxIPPerENI: cfg.Cap, BatchSize: cfg.Batch,
		MinPoolSize: cfg.MinIdle, MaxPoolSize: cfg.MaxIdle}
	fac := w.cloud.Factory()

	var nis []NetworkInterface
	var stored []daemon.PodResources
	storedPod := map[int]bool{}
	for _, p := range cfg.Pre {
		n6 := p.N6
		if !cfg.V6 {
			n6 = 0
		}
		e := w.cloud.AddENI(p.Type, p.N4, n6)
		snap := w.cloud.Snapshot()[e.ID]
		v4 := vpSorted(snap.V4)
		v6 := vpSorted(snap.V6)
		for a := range snap.V4 {
			w.issued[a] = e.ID
		}
		for a := range snap.V6 {
			w.issued[a] = e.ID
		}
		// stored bindings: pod -> address #i, non-primary first
		var np []netip.Addr
		for _, a := range v4 {
			if a != snap.Primary {
				np = append(np, a)
			}
		}
		np = append(np, snap.Primary)
		for i, pod := range p.Bound {
			if storedPod[pod] || (p.Type == "erdma") != (pod >= vpPods-2) {
				continue
			}
			item := daemon.ResourceItem{Type: daemon.ResourceTypeENIIP}
			res := &LocalIPResource{ENI: *e}
			if cfg.V4 {
				if i >= len(np) {
					continue
				}
				item.IPv4 = np[i].String()
				res.IP.IPv4 = np[i]
			}
			if cfg.V6 {
				if i >= len(v6) {
					continue
				}
				item.IPv6 = v6[i].String()
				res.IP.IPv6 = v6[i]
			}
			if p.Legacy {
				item.ID = fmt.Sprintf("%s.%s", e.MAC, item.IPv4)
			} else {
				item.ENIID = e.ID
				item.ENIMAC = e.MAC
				item.ID = fmt.Sprintf("%s.%s", e.MAC, res.IP.String())
			}
			storedPod[pod] = true
			stored = append(stored, daemon.PodResources{
				PodInfo:   &daemon.PodInfo{Namespace: "ns", Name: fmt.Sprintf("p%d", pod)},
				Resources: []daemon.ResourceItem{item},
			})
			// a stored record is an acknowledged ADD: the pod holds the address
			pid := vpPodID(pod)
			w.podRes[pid] = res
			if res.IP.IPv4.IsValid() {
				w.hold[res.IP.IPv4] = vpHold{pid, e.ID}
			}
			if res.IP.IPv6.IsValid() {
				w.hold[res.IP.IPv6] = vpHold{pid, e.ID}
			}
		}
		runAs := p.Type
		if p.Type == "trunk" && p.AsSecondary {
			runAs = "secondary"
		}
		lo := NewLocal(e, runAs, fac, pc)
		w.locals = append(w.locals, lo)
		if runAs == "trunk" {
			nis = append(nis, &vpSched{NetworkInterface: NewTrunk(nil, lo), local: lo})
		} else {
			nis = append(nis, &vpSched{NetworkInterface: lo, local: lo})
		}
	}
	for i := 0; i < cfg.Erdma; i++ {
		lo := NewLocal(nil, "erdma", fac, pc)
		w.locals = append(w.locals, lo)
		nis = append(nis, &vpSched{NetworkInterface: lo, local: lo})
	}
	for i := 0; i < cfg.Slots; i++ {
		lo := NewLocal(nil, "secondary", fac, pc)
		w.locals = append(w.locals, lo)
		nis = append(nis, &vpSched{NetworkInterface: lo, local: lo})
	}
	total := cfg.Cap * len(w.locals)
	w.mgr = NewManager(cfg.MinIdle, cfg.MaxIdle, total, 0, nis, daemon.EniSelectionPolicy(cfg.Policy), nil)

	w.cloud.Hook = w.hook
	w.cloud.Gate = w.gate
	if s.BalanceOnArrivalUS > 0 {
		gap := time.Duration(s.BalanceOnArrivalUS) * time.Microsecond
		w.cloud.After = func(_ *cloudsim.Cloud, c *cloudsim.Call) {
			if c.Err || (c.Kind != cloudsim.KCreate && c.Kind != cloudsim.KAssign4 && c.Kind != cloudsim.KAssign6) {
				return
			}
			w.burst.Add(1)
			go func() {
				defer w.burst.Add(-1)
				for i := 0; i < 4 && w.ctx.Err() == nil; i++ {
					time.Sleep(gap)
					ctx, cancel := context.WithTimeout(w.ctx, 2*time.Millisecond)
					w.mgr.syncPool(ctx)
					cancel()
				}
			}()
		}
	}
	if s.LoadDelayUS > 0 {
		d := time.Duration(s.LoadDelayUS) * time.Microsecond
		w.cloud.AfterLoad = func() { time.Sleep(d) }
	}

	w.ctx, w.cancel = context.WithCancel(context.Background())
	for _, ni := range nis {
		if err := ni.Run(w.ctx, stored, &w.wg); err != nil {
			c.Fatalf("Run failed on a healthy cloud: %v", err)
		}
	}
	return w
}

func vpSorted(m map[netip.Addr]bool) []netip.Addr {
	var out []netip.Addr
	for a := range m {
		out = append(out, a)
	}
	sort.Slice(out, func(i, j int) bool { return out[i].Less(out[j]) })
	return out
}

func (w *vpWorld) stop() {
	w.cancel()
	done := make(chan struct{})
	go func() { w.wg.Wait(); close(done) }()
	// workers wake on ctx.Done via notify(); keep nudging in case a broadcast was missed
	for i := 0; i < 400; i++ {
		select {
		case <-done:
			return
		case <-time.After(5 * time.Millisecond):
			for _, l := range w.locals {
				l.cond.Broadcast()
			}
		}
	}
}

// ------------------------------------------------------------------ C06 monitors

// hook runs under the cloud lock when a factory call arrives, before its effect.
func (w *vpWorld) hook(cl *cloudsim.Cloud, c *cloudsim.Call) {
	cfg := w.s.Cfg
	switch c.Kind {
	case cloudsim.KAssign4, cloudsim.KAssign6:
		e := cl.ENIs[c.ENI]
		if e == nil {
			return
		}
		have := len(e.V4)
		if c.Kind == cloudsim.KAssign6 {
			have = len(e.V6)
		}
		if c.Count < 1 {
			w.failf("C06", "%s: non-positive count", c)
		}
		if c.Count > cfg.Batch {
			w.failf("C06", "%s: count %d exceeds batch size %d", c, c.Count, cfg.Batch)
		}
		if have+c.Count > cfg.Cap {
			w.failf("C06", "%s: interface already has %d addresses, request for %d exceeds per-interface limit %d", c, have, c.Count, cfg.Cap)
		}
		if have+c.Count >= cfg.Cap {
			w.flag(func() { w.monitorNearCap = true })
		}
	case cloudsim.KCreate:
		quota := len(w.locals)
		existing := len(cl.ENIs)
		if existing+cl.CreatingLocked() > quota {
			w.failf("C06", "%s: %d interfaces exist and %d creations in flight, quota %d", c, existing, cl.CreatingLocked(), quota)
		}
		if existing+cl.CreatingLocked() >= quota {
			w.flag(func() { w.monitorNearCap = true })
		}
		lim := cfg.Cap
		if cfg.Batch < lim {
			lim = cfg.Batch
		}
		if c.Count > lim || c.V6Cnt > lim {
			w.failf("C06", "%s: initial address count exceeds min(batch %d, per-interface limit %d)", c, cfg.Batch, cfg.Cap)
		}
		if strings.ToLower(c.Type) == "erdma" {
			n := 0
			for _, e := range cl.ENIs {
				if e.ERdma {
					n++
				}
			}
			q := 0
			for _, l := range w.locals {
				if l.eniType == "erdma" {
					q++
				}
			}
			if n+1 > q {
				w.failf("C06", "%s: erdma interfaces %d+1 exceed quota %d", c, n, q)
			}
		}
	case cloudsim.KUnAssign4, cloudsim.KUnAssign6:
		e := cl.ENIs[c.ENI]
		w.mu.Lock()
		if len(w.hold) > 0 {
			w.flag(func() { w.disposeWhileHeld = true })
		}
		for _, a := range c.IPs {
			if h, ok := w.hold[a]; ok {
				w.failfLocked("C06", "%s: unassigns %s which pod %s holds", c, a, h.pod)
			}
			if e != nil && a == e.Primary {
				w.failfLocked("C06", "%s: unassigns the interface's primary address %s", c, a)
			}
			w.barredAt[a] = w.clock.Add(1)
		}
		w.mu.Unlock()
	case cloudsim.KDelete:
		e := cl.ENIs[c.ENI]
		if e == nil {
			return
		}
		if e.Trunk || e.ERdma || e.Type == "trunk" || e.Type == "erdma" {
			w.failf("C06", "%s: deletes the %s interface", c, e.Type)
		}
		w.mu.Lock()
		if len(w.hold) > 0 {
			w.flag(func() { w.disposeWhileHeld = true })
		}
		for a, h := range w.hold {
			if h.eni == c.ENI {
				w.failfLocked("C06", "%s: deletes interface while pod %s holds %s on it", c, h.pod, a)
			}
		}
		for a := range e.V4 {
			w.barredAt[a] = w.clock.Add(1)
		}
		for a := range e.V6 {
			w.barredAt[a] = w.clock.Add(1)
		}
		w.mu.Unlock()
	}
}

// gate runs without the cloud lock (white-box reads that need the Local's lock).
func (w *vpWorld) gate(c *cloudsim.Call) {
	if (c.Kind == cloudsim.KUnAssign4 || c.Kind == cloudsim.KUnAssign6) && w.s.UnassignDelayUS > 0 {
		time.Sleep(time.Duration(w.s.UnassignDelayUS) * time.Microsecond)
	}
	if c.Kind == cloudsim.KCreate {
		d := w.opCreateDelayUS.Swap(0)
		if d == 0 {
			d = int64(w.s.CreateDelayUS)
		}
		if d > 0 {
			time.Sleep(time.Duration(d) * time.Microsecond)
		}
	}
	if c.Kind != cloudsim.KDelete {
		return
	}
	for _, l := range w.locals {
		l.cond.L.Lock()
		if l.eni != nil && l.eni.ID == c.ENI {
			if n := l.allocatingV4.Len() + l.allocatingV6.Len(); n > 0 {
				w.failf("C06", "%s: deletes interface with %d requests pending on it", c, n)
			}
			if n := len(l.ipv4.InUse()) + len(l.ipv6.InUse()); n > 0 {
				w.failf("C06", "%s: deletes interface with %d addresses in use", c, n)
			}
		}
		l.cond.L.Unlock()
	}
}

// ------------------------------------------------------------------ operations

const vpAllocTimeout = 250 * time.Millisecond

func (w *vpWorld) idleCount() int {
	n := 0
	for _, l := range w.locals {
		l.cond.L.Lock()
		if l.eni != nil && l.status == statusInUse {
			if w.s.Cfg.V4 {
				n += len(l.ipv4.Allocatable())
			} else {
				n += len(l.ipv6.Allocatable())
			}
		}
		l.cond.L.Unlock()
	}
	return n
}

func (w *vpWorld) doAlloc(o vpOp) {
	pid := vpPodID(o.Pod)
	cni := &daemon.CNI{PodName: fmt.Sprintf("p%d", o.Pod), PodNamespace: "ns", PodID: pid}
	req := NewLocalIPRequest()
	if w.podIsErdma(o.Pod) {
		req.LocalIPType = LocalIPTypeERDMA
	}
	w.mu.Lock()
	held := w.podRes[pid]
	w.mu.Unlock()
	if held != nil && w.s.Cfg.Policy == "least_ips" && !w.noGuard && vt.Known("C01-least-ips-second-address") {
		// known finding: excluded by construction so that the search continues behind it
		w.flag(func() { w.knownSkipped++ })
		return
	}
	if held == nil && o.Stale {
		w.mu.Lock()
		last := w.lastRes[pid]
		w.mu.Unlock()
		if last != nil {
			req.NetworkInterfaceID = last.ENI.ID
			req.IPv4 = last.IP.IPv4
			req.IPv6 = last.IP.IPv6
			w.flag(func() { w.staleRecord = true })
		}
	}
	if held != nil {
		// exactly what daemon.AllocIP does through setRequest for a pod with a stored record
		req.NetworkInterfaceID = held.ENI.ID
		req.IPv4 = held.IP.IPv4
		req.IPv6 = held.IP.IPv6
		w.flag(func() { w.repeatAlloc = true })
	}
	ctx, cancel := context.WithTimeout(w.ctx, vpAllocTimeout)
	defer cancel()
	if o.CancelUS > 0 {
		w.flag(func() { w.cancelled = true })
		t := time.AfterFunc(time.Duration(o.CancelUS)*time.Microsecond, cancel)
		defer t.Stop()
	}
	startTS := w.clock.Add(1)
	res, err := w.mgr.Allocate(ctx, cni, &AllocRequest{ResourceRequests: []ResourceRequest{req}})
	if err != nil {
		if ctx.Err() == context.DeadlineExceeded {
			w.flag(func() { w.allocTimeout++ })
		}
		w.flag(func() { w.allocErr++ })
		w.c.Trace("alloc %s -> err %v (partial %d)", pid, err, len(res))
		// daemon.AllocIP: roll back whatever was returned, except what the pod's stored record
		// already holds (a failed repeat of an ADD does not take the earlier allocation away)
		var rollback []NetworkResource
		for _, r := range res {
			if lr, ok := r.(*LocalIPResource); ok && held != nil &&
				(lr.IP.IPv4 == held.IP.IPv4 && lr.IP.IPv6 == held.IP.IPv6) {
				continue
			}
			rollback = append(rollback, r)
		}
		_ = w.mgr.Release(context.Background(), cni, &ReleaseRequest{NetworkResources: rollback})
		// the pod keeps holding what its acknowledged ADD returned (the ledger is unchanged):
		// nobody else may be given that address, whatever happened to the failed repeat
		return
	}
	w.flag(func() { w.allocOK++ })
	if len(res) != 1 {
		w.failf("C01", "alloc %s succeeded with %d resources", pid, len(res))
		return
	}
	r, ok := res[0].(*LocalIPResource)
	if !ok {
		w.failf("C01", "alloc %s returned %T", pid, res[0])
		return
	}
	w.c.Trace("alloc %s -> %s on %s", pid, r.IP.String(), r.ENI.ID)
	w.cloud.Lock()
	w.mu.Lock()
	defer w.cloud.Unlock()
	defer w.mu.Unlock()
	for _, a := range []netip.Addr{r.IP.IPv4, r.IP.IPv6} {
		if !a.IsValid() {
			continue
		}
		if h, ok := w.hold[a]; ok && h.pod != pid {
			w.failfLocked("C01", "address %s handed to %s while %s still holds it", a, pid, h.pod)
		}
		// provenance: issued by the cloud on an interface of this node
		if eni, ok := w.issuedOnLocked(a); !ok {
			w.failfLocked("C01", "address %s handed to %s was never assigned by the cloud", a, pid)
		} else if eni != r.ENI.ID {
			w.failfLocked("C01", "address %s handed to %s with interface %s but the cloud assigned it on %s", a, pid, r.ENI.ID, eni)
		}
		heldSame := held != nil && (held.IP.IPv4 == a || held.IP.IPv6 == a)
		if ts, ok := w.barredAt[a]; ok && ts < startTS && !heldSame {
			w.failfLocked("C01", "address %s handed to %s after it was unassigned / seen removed by sync", a, pid)
		}
	}
	if (w.s.Cfg.V4 && !r.IP.IPv4.IsValid()) || (w.s.Cfg.V6 && !r.IP.IPv6.IsValid()) {
		w.failfLocked("C01", "alloc %s succeeded without an address for an enabled family: %s", pid, r.IP.String())
	}
	if held != nil {
		if held.IP.IPv4 != r.IP.IPv4 || held.IP.IPv6 != r.IP.IPv6 {
			w.failfLocked("C01", "repeated ADD for %s got %s, but it already holds %s", pid, r.IP.String(), held.IP.String())
			for _, a := range []netip.Addr{held.IP.IPv4, held.IP.IPv6} {
				if a.IsValid() {
					delete(w.hold, a)
				}
			}
		}
	}
	w.podRes[pid] = r
	for _, a := range []netip.Addr{r.IP.IPv4, r.IP.IPv6} {
		if a.IsValid() {
			w.hold[a] = vpHold{pid, r.ENI.ID}
		}
	}
}

// doLateWorker plays the schedule "ADD #1 for a pod is cancelled, the runtime retries
// (ADD #2), and only then does the pool worker of ADD #1 get to notice the cancellation".
// Which goroutine runs when is up to the Go scheduler and cannot be forced from outside, so
// the harness takes the manager's place for ADD #1: it asks the interfaces directly (same
// loop as Manager.Allocate), does not pick the answer up, lets ADD #2 run through the real
// manager, and cancels ADD #1's context late. To the pool that is exactly a worker that was
// descheduled just before it looked at its context; a worker that holds the interface lock
// meanwhile simply makes ADD #2 wait. Afterwards the answer channel is drained the way
// Manager.Allocate does after a cancellation and anything received is rolled back the way
// daemon.AllocIP does.
func (w *vpWorld) doLateWorker(o vpOp) {
	pid := vpPodID(o.Pod)
	cni := &daemon.CNI{PodName: fmt.Sprintf("p%d", o.Pod), PodNamespace: "ns", PodID: pid}
	w.mu.Lock()
	held := w.podRes[pid]
	w.mu.Unlock()
	if held != nil {
		// ADD #1 is a first ADD here; a pod that already holds an address takes the ordinary path
		w.doAlloc(vpOp{Kind: "alloc", Pod: o.Pod})
		return
	}
	req := NewLocalIPRequest()
	if w.podIsErdma(o.Pod) {
		req.LocalIPType = LocalIPTypeERDMA
	}
	ctxA, cancelA := context.WithCancel(w.ctx)
	defer cancelA()
	var ch chan *AllocResp
	var lo *Local
	w.mgr.Lock()
	for _, ni := range w.mgr.networkInterfaces {
		ch, _ = ni.Allocate(ctxA, cni, req)
		if ch != nil {
			switch x := ni.(type) {
			case *vpSched:
				lo = x.local
			case *Local:
				lo = x
			case *Trunk:
				lo = x.local
			}
			break
		}
	}
	w.mgr.Unlock()
	if ch == nil || lo == nil {
		return
	}
	w.flag(func() { w.cancelled = true })
	// an answer that is already there (the interface served the request from its cache and
	// put the answer into the buffered channel before returning) is always picked up by
	// Manager.Allocate, cancelled or not: take it, roll it back as daemon.AllocIP does for a
	// request that failed after the pool had answered, and let ADD #2 be a plain retry
	select {
	case r, ok := <-ch:
		cancelA()
		if ok && r != nil && r.Err == nil {
			w.c.Trace("lateworker %s: ADD #1 answered from the cache, cancelled, rolled back", pid)
			_ = w.mgr.Release(context.Background(), cni, &ReleaseRequest{NetworkResources: r.NetworkConfigs})
		}
		w.doAlloc(vpOp{Kind: "alloc", Pod: o.Pod})
		return
	default:
	}
	w.c.Trace("lateworker %s: ADD #1 in flight, not picked up", pid)
	t := time.AfterFunc(time.Duration(o.CancelUS)*time.Microsecond, cancelA)
	defer t.Stop()
	// ADD #2 may overlap the worker of ADD #1 only once that worker is past its last look at
	// its context, i.e. once it has marked an address for the pod and is parked handing the
	// answer over WITHOUT holding the interface lock (then the late cancellation below is
	// indistinguishable from a worker that was descheduled at that point). A worker that is
	// still waiting for an address would, in a real run, see the cancellation first; and a
	// worker that hands over while holding the lock cannot be observed (and makes ADD #2
	// wait anyway). In those cases ADD #1 is cancelled first and ADD #2 is a plain retry.
	parked := false
	mu, _ := lo.cond.L.(*sync.Mutex)
	for ctxA.Err() == nil && mu != nil {
		if mu.TryLock() {
			for _, v := range lo.ipv4 {
				if v.podID == pid {
					parked = true
				}
			}
			for _, v := range lo.ipv6 {
				if v.podID == pid {
					parked = true
				}
			}
			mu.Unlock()
			if parked {
				break
			}
		}
		time.Sleep(20 * time.Microsecond)
	}
	if parked {
		w.flag(func() { w.lateWorker = true })
		w.c.Trace("lateworker %s: worker of ADD #1 parked outside the lock with an address marked", pid)
		time.Sleep(time.Duration(o.A) * time.Microsecond)
	} else {
		cancelA()
	}
	// ADD #2: the runtime's retry, through the real manager
	w.doAlloc(vpOp{Kind: "alloc", Pod: o.Pod})
	cancelA()
	// Manager.Allocate after ctx.Done(): take an answer that is already there
	var got *AllocResp
	select {
	case r, ok := <-ch:
		if ok {
			got = r
		}
	case <-time.After(20 * time.Millisecond):
	}
	if got != nil && got.Err == nil {
		w.mu.Lock()
		now := w.podRes[pid]
		w.mu.Unlock()
		var rollback []NetworkResource
		for _, r := range got.NetworkConfigs {
			if lr, ok := r.(*LocalIPResource); ok && now != nil && lr.IP.IPv4 == now.IP.IPv4 && lr.IP.IPv6 == now.IP.IPv6 {
				continue // what the pod's acknowledged ADD holds is not taken away (daemon.excludeHeld)
			}
			rollback = append(rollback, r)
		}
		w.c.Trace("lateworker %s: late answer of ADD #1 rolled back (%d resources)", pid, len(rollback))
		_ = w.mgr.Release(context.Background(), cni, &ReleaseRequest{NetworkResources: rollback})
	}
}

// issuedOnLocked: which interface did the cloud issue the address on (cloud lock held).
func (w *vpWorld) issuedOnLocked(a netip.Addr) (string, bool) {
	e, ok := w.cloud.Issued[a]
	return e, ok
}

// vpSched stands between the manager and one interface of its list. It changes nothing an
// interface does; it owns the schedule of one thing: a DEL that carries a vpSlow marker in
// its context is held, once, just before it asks the first interface that does not own the
// address (a goroutine that loses the processor between two interfaces of the walk).
type vpSched struct {
	NetworkInterface
	local *Local
}

func (s *vpSched) Usage() (int, int, error) { return s.NetworkInterface.(Usage).Usage() }
func (s *vpSched) Status() Status           { return s.NetworkInterface.(ReportStatus).Status() }

func (s *vpSched) Release(ctx context.Context, cni *daemon.CNI, request NetworkResource) (bool, error) {
	if sl, ok := ctx.Value(vpSlowKey{}).(*vpSlow); ok && sl != nil {
		if res, ok := request.(*LocalIPResource); ok {
			s.local.cond.L.Lock()
			owner := s.local.eni != nil && s.local.eni.ID == res.ENI.ID
			s.local.cond.L.Unlock()
			if !owner && sl.parked.CompareAndSwap(false, true) {
				close(sl.entered)
				<-sl.resume
			}
		}
	}
	return s.NetworkInterface.Release(ctx, cni, request)
}

type vpSlowKey struct{}

type vpSlow struct {
	parked  atomic.Bool
	entered chan struct{}
	resume  chan struct{}
}

// doSlowRelease: a DEL whose walk over the manager's interfaces is held between two
// interfaces while a balancer pass or the ADD of another pod is started. On the unchanged
// tree the DEL holds the manager's read lock for the whole walk, so the other operation
// waits (it gets a bounded head start, then the DEL is let go); either way the DEL must have
// released the pod's address when it reports success.
func (w *vpWorld) doSlowRelease(o vpOp) {
	pid := vpPodID(o.Pod)
	cni := &daemon.CNI{PodName: fmt.Sprintf("p%d", o.Pod), PodNamespace: "ns", PodID: pid}
	sl := &vpSlow{entered: make(chan struct{}), resume: make(chan struct{})}
	done := make(chan struct{})
	go func() {
		defer close(done)
		w.releaseCtx(context.WithValue(context.Background(), vpSlowKey{}, sl), pid, cni)
	}()
	select {
	case <-done:
		return
	case <-sl.entered:
	}
	w.flag(func() { w.slowRelease = true })
	other := make(chan struct{})
	go func() {
		defer close(other)
		if o.B%2 == 0 {
			ctx, cancel := context.WithTimeout(w.ctx, vpAllocTimeout)
			w.mgr.syncPool(ctx)
			cancel()
		} else {
			w.doAlloc(vpOp{Kind: "alloc", Pod: o.A % vpPods})
		}
	}()
	select {
	case <-other:
	case <-time.After(time.Duration(60+o.JitterUS) * time.Microsecond):
	}
	close(sl.resume)
	<-done
	<-other
}

func (w *vpWorld) release(pid string, cni *daemon.CNI) {
	w.releaseCtx(context.Background(), pid, cni)
}

func (w *vpWorld) releaseCtx(ctx context.Context, pid string, cni *daemon.CNI) {
	w.mu.Lock()
	r := w.podRes[pid]
	if r != nil {
		delete(w.podRes, pid)
		for _, a := range []netip.Addr{r.IP.IPv4, r.IP.IPv6} {
			if a.IsValid() {
				if h, ok := w.hold[a]; ok && h.pod == pid {
					delete(w.hold, a)
				}
			}
		}
		w.lastRes[pid] = r
	} else {
		r = w.lastRes[pid]
		if r != nil {
			w.flag(func() { w.staleRelease = true })
		}
	}
	w.mu.Unlock()
	if r == nil {
		return
	}
	w.c.Trace("release %s %s on %s", pid, r.IP.String(), r.ENI.ID)
	// daemon.ReleaseIP rebuilds the resource from the stored item (id + mac + addresses)
	rr := &LocalIPResource{ENI: daemon.ENI{ID: r.ENI.ID, MAC: r.ENI.MAC}, IP: types.IPSet2{IPv4: r.IP.IPv4, IPv6: r.IP.IPv6}}
	_ = w.mgr.Release(ctx, cni, &ReleaseRequest{NetworkResources: []NetworkResource{rr}})
}

func (w *vpWorld) doOp(o vpOp) {
	if o.JitterUS > 0 {
		time.Sleep(time.Duration(o.JitterUS) * time.Microsecond)
	}
	switch o.Kind {
	case "alloc":
		w.doAlloc(o)
	case "lateworker":
		w.doLateWorker(o)
	case "cancelledcreate":
		w.cloud.SetFaults(o.Faults)
		w.flag(func() { w.sawDriftOrFault = true; w.faultAfter = true })
		w.opCreateDelayUS.Store(int64(o.A))
		w.doAlloc(vpOp{Kind: "alloc", Pod: o.Pod, CancelUS: o.CancelUS})
		// the pool batches requests for a while before it calls the cloud: stay in the round
		// until the armed fault has been consumed and that call has returned (bounded)
		for i := 0; i < 400 && (w.cloud.PendingFaults() > 0 || w.cloud.Inflight() > 0); i++ {
			time.Sleep(50 * time.Microsecond)
		}
		if w.cloud.PendingFaults() == 0 {
			w.flag(func() { w.cancelledCreate = true })
		}
	case "release":
		pid := vpPodID(o.Pod)
		w.release(pid, &daemon.CNI{PodName: fmt.Sprintf("p%d", o.Pod), PodNamespace: "ns", PodID: pid})
	case "slowrelease":
		w.doSlowRelease(o)
	case "syncpool":
		ctx, cancel := context.WithTimeout(w.ctx, vpAllocTimeout)
		w.mgr.syncPool(ctx)
		cancel()
	case "faultedshrink":
		w.cloud.SetFaults(o.Faults)
		w.flag(func() { w.sawDriftOrFault = true })
		deadline := time.Now().Add(time.Duration(2+o.A%4) * time.Millisecond)
		for time.Now().Before(deadline) || (w.cloud.Inflight() > 0 && time.Now().Before(deadline.Add(20*time.Millisecond))) {
			ctx, cancel := context.WithTimeout(w.ctx, 2*time.Millisecond)
			w.mgr.syncPool(ctx)
			cancel()
			time.Sleep(40 * time.Microsecond)
		}
	case "syncstorm":
		// the balancer runs back to back for a few milliseconds while the other operations of
		// the round are in flight: a pass is likely to fall between two steps of a request
		// (address arrived / picked up, interface created / first address used)
		deadline := time.Now().Add(time.Duration(2+o.A%4) * time.Millisecond)
		for time.Now().Before(deadline) {
			ctx, cancel := context.WithTimeout(w.ctx, 2*time.Millisecond)
			w.mgr.syncPool(ctx)
			cancel()
			time.Sleep(time.Duration(10+o.B%60) * time.Microsecond)
		}
	case "sync":
		w.doSync(w.locals[o.A%len(w.locals)])
	case "drift":
		id, a := w.cloud.Drift(o.A, o.B, o.V6)
		if a.IsValid() {
			w.flag(func() { w.sawDriftOrFault = true })
			w.c.Trace("drift: %s removed from %s", a, id)
		}
	case "glitch":
		id, a := w.cloud.GlitchAddr(o.A, o.B, o.V6, 1)
		if a.IsValid() {
			w.flag(func() { w.sawDriftOrFault = true })
			w.c.Trace("glitch: next metadata answer for %s omits %s", id, a)
		}
	case "faults":
		w.cloud.SetFaults(o.Faults)
		w.flag(func() { w.sawDriftOrFault = true })
		for _, f := range o.Faults {
			if f.Mode != cloudsim.FBefore {
				w.flag(func() { w.faultAfter = true })
			}
		}
	case "clearinhibit":
		w.clearInhibit()
	}
}

func (w *vpWorld) clearInhibit() {
	for _, l := range w.locals {
		l.cond.L.Lock()
		l.ipAllocInhibitExpireAt = time.Time{}
		// the broadcast stands for "the next request arrives after the inhibit period"; a
		// slot whose interface is being deleted takes no requests, and an artificial wake-up
		// there would hide a lost wake-up of the dispose worker
		if l.status != statusDeleting {
			l.cond.Broadcast()
		}
		l.cond.L.Unlock()
	}
}

// doSync runs the periodic cloud sync of one interface and records what it saw removed.
func (w *vpWorld) doSync(l *Local) {
	l.cond.L.Lock()
	var id string
	if l.eni != nil {
		id = l.eni.ID
	}
	l.cond.L.Unlock()
	if id == "" {
		return
	}
	// addresses removed remotely before this sync began
	w.cloud.Lock()
	before := len(w.cloud.Log)
	var gone []netip.Addr
	for a := range w.cloud.Removed {
		gone = append(gone, a)
	}
	w.cloud.Unlock()
	l.sync()
	w.cloud.Lock()
	saw := false
	for _, c := range w.cloud.Log[before:] {
		if c.Kind == cloudsim.KLoad && c.ENI == id && !c.Err {
			saw = true
		}
	}
	w.mu.Lock()
	if saw {
		for _, a := range gone {
			if e, _ := w.issuedOnLocked(a); e == id {
				if _, ok := w.barredAt[a]; !ok {
					w.barredAt[a] = w.clock.Add(1)
				}
			}
		}
	}
	w.mu.Unlock()
	w.cloud.Unlock()
}

// ------------------------------------------------------------------ quiescence and C07

func (w *vpWorld) quiescent() bool {
	if w.cloud.Inflight() != 0 {
		return false
	}
	for _, l := range w.locals {
		l.cond.L.Lock()
		ok := (l.status == statusInit || l.status == statusInUse) &&
			l.allocatingV4.Len() == 0 && l.allocatingV6.Len() == 0 &&
			len(l.ipv4.Deleting()) == 0 && len(l.ipv6.Deleting()) == 0
		l.cond.L.Unlock()
		if !ok {
			return false
		}
	}
	return true
}

// stuck reports a slot whose interface is marked for removal (status Deleting, nothing on it
// in use or pending) while the pool has been completely idle for a
// second: no cloud call in flight, the call log unchanged, no request queued. The workers
// have no timers (the harness sets the rate limiter to infinite), so nothing will ever
// happen again without a further event: a lost wake-up. "" if the pool is merely busy.
func (w *vpWorld) stuck() string {
	what := ""
	lastLog := -1
	for i := 0; i < 40; i++ {
		if w.cloud.Inflight() != 0 {
			return ""
		}
		w.cloud.Lock()
		n := len(w.cloud.Log)
		w.cloud.Unlock()
		if lastLog >= 0 && n != lastLog {
			return ""
		}
		lastLog = n
		cur := ""
		for idx, l := range w.locals {
			l.cond.L.Lock()
			if l.allocatingV4.Len() != 0 || l.allocatingV6.Len() != 0 {
				l.cond.L.Unlock()
				return ""
			}
			// (addresses in state Deleting on an interface that is in use are not judged here:
			// the periodic sync of an in-use interface ends with a broadcast, which wakes the
			// dispose worker; a slot in status Deleting gets no such periodic wake-up)
			if l.eni != nil && l.status == statusDeleting && l.canDispose() {
				cur = fmt.Sprintf("slot %d still holds interface %s in status Deleting: it was not handed back", idx, l.eni.ID)
			}
			l.cond.L.Unlock()
		}
		if cur == "" {
			return ""
		}
		what = cur
		time.Sleep(25 * time.Millisecond)
	}
	return what
}

func (w *vpWorld) waitQuiescent(d time.Duration) bool {
	deadline := time.Now().Add(d)
	stable := 0
	lastLog := -1
	for time.Now().Before(deadline) {
		if w.quiescent() {
			w.cloud.Lock()
			n := len(w.cloud.Log)
			w.cloud.Unlock()
			if n == lastLog {
				stable++
				if stable >= 3 {
					return true
				}
			} else {
				stable = 0
				lastLog = n
			}
		} else {
			stable = 0
		}
		time.Sleep(300 * time.Microsecond)
	}
	return false
}

type vpUsage struct {
	idleBalancer   int // as Manager.syncPool counts it
	idleNonPrimary int // idle, valid, not an interface's primary address
	idlePrimaries  int // interfaces whose primary address is idle (each can absorb one unit of surplus per pass)
	inUse          int
}

func (w *vpWorld) usage() vpUsage {
	var u vpUsage
	for _, l := range w.locals {
		i, n, _ := l.Usage()
		u.idleBalancer += i
		u.inUse += n
		l.cond.L.Lock()
		if l.eni != nil && l.status == statusInUse {
			set := l.ipv4
			if !w.s.Cfg.V4 {
				set = l.ipv6
			}
			for _, ip := range set {
				if !ip.InUse() && ip.Valid() && !ip.Primary() {
					u.idleNonPrimary++
				}
				if !ip.InUse() && ip.Primary() {
					u.idlePrimaries++
				}
			}
		}
		l.cond.L.Unlock()
	}
	return u
}

// settle: healthy cloud, inhibit cleared, sync + balancer passes until nothing moves.
func (w *vpWorld) settle() bool {
	w.cloud.ClearFaults()
	// before the harness causes any further event (clearInhibit broadcasts, the passes below
	// issue requests): is something marked for removal while the pool is completely idle?
	if what := w.stuck(); what != "" {
		w.stuckWhat = what
		return false
	}
	w.clearInhibit()
	if !w.waitQuiescent(2 * time.Second) {
		return false
	}
	cfg := w.s.Cfg
	for pass := 0; pass < 60; pass++ {
		for _, l := range w.locals {
			w.doSync(l)
		}
		ctx, cancel := context.WithTimeout(w.ctx, 2*time.Second)
		w.mgr.syncPool(ctx)
		cancel()
		if !w.waitQuiescent(2 * time.Second) {
			return false
		}
		u := w.usage()
		upperOK := u.idleBalancer <= cfg.MaxIdle || u.idleNonPrimary == 0
		if pass >= 25 && u.idleBalancer-cfg.MaxIdle <= u.idlePrimaries {
			upperOK = true // known corner: idle primaries absorb the surplus, see checkBand
		}
		lowerOK := u.idleBalancer >= cfg.MinIdle || !w.lowerReachable(u)
		if upperOK && lowerOK && pass >= 1 {
			return true
		}
	}
	return true
}

// lowerReachable: can the balancer add an address for an ordinary (non-erdma) preheat request
func (w *vpWorld) lowerReachable(u vpUsage) bool {
	total := w.s.Cfg.Cap * len(w.locals)
	if u.idleBalancer+u.inUse >= total {
		return false
	}
	for _, l := range w.locals {
		if l.eniType == "erdma" {
			continue
		}
		l.cond.L.Lock()
		room := l.status != statusDeleting
		if w.s.Cfg.V4 && len(l.ipv4) >= l.cap {
			room = false
		}
		if w.s.Cfg.V6 && len(l.ipv6) >= l.cap {
			room = false
		}
		l.cond.L.Unlock()
		if room {
			return true
		}
	}
	return false
}

func (w *vpWorld) checkAgreement(final bool) {
	snap := w.cloud.Snapshot()
	tracked := map[string]bool{}
	cfg := w.s.Cfg
	for _, l := range w.locals {
		l.cond.L.Lock()
		if l.eni != nil {
			id := l.eni.ID
			if tracked[id] {
				w.failf("C07", "interface %s tracked by two pool slots", id)
			}
			tracked[id] = true
			e := snap[id]
			if e == nil {
				w.failf("C07", "pool tracks interface %s which the cloud does not have (status %s)", id, l.status)
			} else {
				cmp := func(fam string, set Set, cloudSet map[netip.Addr]bool, enabled bool) {
					if !enabled {
						return
					}
					for a, ip := range set {
						if ip.Valid() && !cloudSet[a] && final {
							w.failf("C07", "pool tracks %s %s on %s as valid but the cloud does not have it", fam, a, id)
						}
						if !ip.Valid() && cloudSet[a] && ip.status == ipStatusDeleting {
							w.failf("C07", "quiescent pool still has %s %s on %s marked deleting while the cloud has it", fam, a, id)
						}
						if ip.status == ipStatusInvalid && cloudSet[a] {
							w.failf("C07", "pool marks %s %s on %s as invalid (seen removed) although the cloud reports it on the interface", fam, a, id)
						}
					}
					for a := range cloudSet {
						if _, ok := set[a]; !ok {
							w.failf("C07", "cloud has %s %s on %s which the pool does not track (orphan address)", fam, a, id)
						}
					}
				}
				cmp("ipv4", l.ipv4, e.V4, cfg.V4)
				cmp("ipv6", l.ipv6, e.V6, cfg.V6)
			}
		}
		l.cond.L.Unlock()
	}
	for id, e := range snap {
		if !tracked[id] {
			w.failf("C07", "cloud has interface %s (type %s, created by the pool: %v) which no pool slot tracks (orphan interface)", id, e.Type, e.ByFactory)
		}
	}
	// owners shown by Status() are pods that hold exactly that address
	w.mu.Lock()
	defer w.mu.Unlock()
	for _, st := range w.mgr.Status() {
		for _, u := range st.Usage {
			if u[1] == "" {
				continue
			}
			a, err := netip.ParseAddr(u[0])
			if err != nil {
				continue
			}
			h, ok := w.hold[a]
			if !ok || h.pod != u[1] {
				w.failfLocked("C07", "address %s on %s is marked owned by %s, which holds no such address", a, st.NetworkInterfaceID, u[1])
			}
		}
	}
}

// checkInvalidOnlyIfGone: the pool may mark an address invalid ("seen removed by the cloud
// sync") only if the cloud really no longer reports it on the interface. The simulated
// cloud never re-adds an address, so this holds at any instant, not only at quiescence.
func (w *vpWorld) checkInvalidOnlyIfGone() {
	type inv struct {
		eni string
		a   netip.Addr
	}
	var list []inv
	for _, l := range w.locals {
		l.cond.L.Lock()
		if l.eni != nil {
			for a, ip := range l.ipv4 {
				if ip.status == ipStatusInvalid {
					list = append(list, inv{l.eni.ID, a})
				}
			}
			for a, ip := range l.ipv6 {
				if ip.status == ipStatusInvalid {
					list = append(list, inv{l.eni.ID, a})
				}
			}
		}
		l.cond.L.Unlock()
	}
	if len(list) == 0 {
		return
	}
	snap := w.cloud.Snapshot()
	for _, x := range list {
		if e := snap[x.eni]; e != nil && (e.V4[x.a] || e.V6[x.a]) {
			w.failf("C07", "pool marks %s on %s as invalid (seen removed by the cloud sync) although the cloud reports it on the interface", x.a, x.eni)
		}
	}
}

func (w *vpWorld) checkBand() {
	cfg := w.s.Cfg
	u := w.usage()
	// Upper bound: the idle reserve as the balancer counts it is within max idle, unless only
	// primaries are left (a primary can only leave together with its interface).
	// Listed corner (known finding C07-primary-absorbs-dispose): Local.Dispose counts the no-op
	// disposal of an idle primary as a disposal, so every interface whose primary is idle
	// absorbs one unit of the surplus on every pass; a surplus not larger than the number of
	// such interfaces can therefore stay forever. A larger surplus must still be trimmed.
	surplus := u.idleBalancer - cfg.MaxIdle
	if surplus > 0 && u.idleNonPrimary > 0 {
		if surplus <= u.idlePrimaries && !w.noGuard && vt.Known("C07-primary-absorbs-dispose") {
			w.c.Label("known:C07-primary-absorbs-dispose")
		} else {
			w.failf("C07", "after settling, idle=%d (non-primary %d, interfaces with an idle primary %d) exceeds max idle %d although a non-primary idle address could still be removed", u.idleBalancer, u.idleNonPrimary, u.idlePrimaries, cfg.MaxIdle)
		}
	}
	if u.idleBalancer < cfg.MinIdle && w.lowerReachable(u) {
		w.failf("C07", "after settling, idle=%d is below min idle %d although capacity is available (in use %d)", u.idleBalancer, cfg.MinIdle, u.inUse)
	}
}

// per-round check for C01: no pod owns two addresses of one family in Status()
func (w *vpWorld) checkOwners() {
	own4 := map[string][]string{}
	own6 := map[string][]string{}
	for _, st := range w.mgr.Status() {
		for _, u := range st.Usage {
			if u[1] == "" || u[2] != "Valid" {
				continue
			}
			if strings.Contains(u[0], ":") {
				own6[u[1]] = append(own6[u[1]], u[0])
			} else {
				own4[u[1]] = append(own4[u[1]], u[0])
			}
		}
	}
	for pod, l := range own4 {
		if len(l) > 1 {
			sort.Strings(l)
			w.failf("C01", "pod %s owns %d IPv4 addresses at once: %v", pod, len(l), l)
		}
	}
	for pod, l := range own6 {
		if len(l) > 1 {
			sort.Strings(l)
			w.failf("C01", "pod %s owns %d IPv6 addresses at once: %v", pod, len(l), l)
		}
	}
}

// ------------------------------------------------------------------ run

func vpRun(c *vt.Ctx, s vpScenario) { vpRunOpt(c, s, false) }

func vpRunOpt(c *vt.Ctx, s vpScenario, noGuard bool) {
	rateLimit = rate.Inf
	VerifSleepDivisor = 600 // 300ms batching delay -> 0.5ms
	invalidIPCache = cache.NewLRUExpireCache(100)

	w := vpBuild(c, s)
	w.noGuard = noGuard
	defer w.stop()

	cfg := s.Cfg
	c.Labelf("stack:v4=%v,v6=%v", cfg.V4, cfg.V6)
	c.Labelf("policy:%s", cfg.Policy)
	for ri, round := range s.Rounds {
		// a pod has at most one request in flight (the daemon serialises per pod)
		seen := map[int]bool{}
		var ops []vpOp
		nAlloc := 0
		for _, o := range round {
			if o.Kind == "alloc" || o.Kind == "release" || o.Kind == "lateworker" || o.Kind == "cancelledcreate" {
				if seen[o.Pod] {
					continue
				}
				seen[o.Pod] = true
				if o.Kind == "alloc" {
					nAlloc++
				}
			}
			if o.Kind == "slowrelease" {
				if seen[o.Pod] {
					continue
				}
				seen[o.Pod] = true
				if o.B%2 == 1 {
					if other := o.A % vpPods; seen[other] {
						o.B = 0 // that pod already has a request in this round: a balancer pass instead
					} else {
						seen[other] = true
						nAlloc++
					}
				}
			}
			ops = append(ops, o)
		}
		if nAlloc > w.idleCount() {
			w.flag(func() { w.oversubscribed = true })
		}
		c.Trace("--- round %d: %d ops", ri, len(ops))
		var wg sync.WaitGroup
		for _, o := range ops {
			wg.Add(1)
			go func(o vpOp) {
				defer wg.Done()
				w.doOp(o)
			}(o)
		}
		wg.Wait()
		for i := 0; i < 20000 && w.burst.Load() > 0; i++ {
			time.Sleep(50 * time.Microsecond)
		}
		w.checkOwners()
		if s.Mode == "C07" {
			w.checkInvalidOnlyIfGone()
		}
		if len(w.fails) > 0 {
			break
		}
	}

	if len(w.fails) == 0 && s.Mode == "C07" {
		if !w.settle() {
			what := w.stuckWhat
			if what == "" {
				what = w.stuck()
			}
			if what != "" {
				// nothing is in flight, no request is pending and nothing has changed for a
				// second, yet something the pool itself decided to hand back is still there:
				// the pool IS quiescent, and what it created was neither kept nor handed back
				w.failf("C07", "the pool is idle (no cloud call in flight, no request pending, no change for 1s) but %s", what)
			} else {
				w.report(c)
				c.Inconclusive("not quiescent after settle")
			}
		}
		if len(w.fails) == 0 {
			w.checkAgreement(true)
			w.checkBand()
		}
	}

	w.report(c)
	if len(w.fails) > 0 {
		sort.Strings(w.fails[1:]) // keep the first, order the rest deterministically
		c.Fatalf("%s", strings.Join(w.fails, "\n"))
	}
}

func (w *vpWorld) report(c *vt.Ctx) {
	w.cloud.Lock()
	for _, call := range w.cloud.Log {
		if call.Kind != cloudsim.KLoad {
			c.Trace("cloud %s err=%v", call.String(), call.Err)
		}
	}
	w.cloud.Unlock()
	if w.oversubscribed {
		c.Label("oversubscribed")
	}
	if w.sawDriftOrFault {
		c.Label("drift-or-fault")
	}
	if w.staleRelease {
		c.Label("stale-release")
	}
	if w.staleRecord {
		c.Label("add-with-stale-record")
	}
	if w.slowRelease {
		c.Label("del-held-between-two-interfaces")
	}
	if w.repeatAlloc {
		c.Label("repeat-alloc")
	}
	if w.faultAfter {
		c.Label("fault-after-effect")
	}
	if w.cancelled {
		c.Label("cancelled-request")
	}
	if w.lateWorker {
		c.Label("late-worker")
	}
	if w.cancelledCreate {
		c.Label("create-failed-after-effect-with-requester-cancelled")
	}
	if w.monitorNearCap {
		c.Label("at-quota-boundary")
	}
	if w.disposeWhileHeld {
		c.Label("dispose-while-held")
	}
	if w.allocTimeout > 0 {
		c.Label("alloc-timeout")
	}
	if w.allocOK > 0 {
		c.Label("alloc-ok")
	}
	if w.knownSkipped > 0 {
		c.Label("known:C01-least-ips-second-address(excluded repeated ADD)")
	}
	switch w.s.Mode {
	case "C01":
		if w.allocOK > 0 && (w.oversubscribed || w.sawDriftOrFault || w.staleRelease) {
			c.NonTrivial()
		}
	case "C06":
		if w.monitorNearCap || w.disposeWhileHeld {
			c.NonTrivial()
		}
	case "C07":
		if w.faultAfter || w.cancelled {
			c.NonTrivial()
		}
	}
}

func TestVerifC01Pool(t *testing.T) { vt.Run(t, vpGen("C01"), vpRun) }
func TestVerifC06Pool(t *testing.T) { vt.Run(t, vpGen("C06"), vpRun) }
func TestVerifC07Pool(t *testing.T) { vt.Run(t, vpGen("C07"), vpRun) }

// Deterministic witness of known finding C01-least-ips-second-address: with
// eni_selection_policy least_ips an empty interface slot sorts first and Local.Allocate
// skips the interface-id check when it has no interface yet, so a repeated ADD for a pod
// that holds an address is served by a fresh interface with a second address.
func TestVerifC01KnownLeastIPs(t *testing.T) {
	s := vpScenario{Mode: "C01", Cfg: vpCfg{V4: true, Cap: 4, Batch: 2, MaxIdle: 3, Slots: 1, Policy: "least_ips",
		Pre: []vpPreENI{{Type: "secondary", N4: 2, Bound: []int{3}}}},
		Rounds: [][]vpOp{{{Kind: "alloc", Pod: 3}}}}
	vt.Witness(t, "C01", "C01-least-ips-second-address",
		"policy least_ips + empty interface slot: repeated ADD for a pod holding an address returns a second, different address",
		s, func(c *vt.Ctx, s vpScenario) { vpRunOpt(c, s, true) })
}

// Deterministic witness of known finding C07-primary-absorbs-dispose.
func TestVerifC07KnownPrimaryAbsorbs(t *testing.T) {
	s := vpScenario{Mode: "C07", Cfg: vpCfg{V4: true, Cap: 6, Batch: 2, MinIdle: 0, MaxIdle: 1, Policy: "most_ips",
		// eni-1 (erdma): only its idle primary. eni-2: .12 primary bound to p1, .13 bound to p0, .14 idle.
		Pre: []vpPreENI{{Type: "erdma", N4: 1}, {Type: "secondary", N4: 3, Bound: []int{0, 0, 1}}}},
		Rounds: [][]vpOp{{{Kind: "sync", A: 0}}}}
	vt.Witness(t, "C07", "C07-primary-absorbs-dispose",
		"an idle primary address on an interface that cannot be deleted (erdma/trunk, or pinned by in-use siblings) is counted as disposed by Local.Dispose although nothing happens, so the balancer never removes the remaining idle non-primary address and idle stays one above max idle",
		s, func(c *vt.Ctx, s vpScenario) { vpRunOpt(c, s, true) })
}
