package eni

import (
	"context"
	"fmt"
	"strconv"
	"testing"

	"github.com/aliyun/alibaba-cloud-sdk-go/services/ecs"
	"github.com/aliyun/alibaba-cloud-sdk-go/services/eflo"
	corev1 "k8s.io/api/core/v1"
	metav1 "k8s.io/apimachinery/pkg/apis/meta/v1"
	k8stypes "k8s.io/apimachinery/pkg/types"
	"pgregory.net/rapid"
	"sigs.k8s.io/controller-runtime/pkg/client"
	"sigs.k8s.io/controller-runtime/pkg/client/fake"
	"sigs.k8s.io/controller-runtime/pkg/reconcile"

	"github.com/AliyunContainerService/terway/deviceplugin"
	aliyunClient "github.com/AliyunContainerService/terway/pkg/aliyun/client"
	networkv1beta1 "github.com/AliyunContainerService/terway/pkg/apis/network.alibabacloud.com/v1beta1"
	register "github.com/AliyunContainerService/terway/pkg/controller"
	multiipnode "github.com/AliyunContainerService/terway/pkg/controller/multi-ip/node"
	ctlnode "github.com/AliyunContainerService/terway/pkg/controller/node"
	terwayTypes "github.com/AliyunContainerService/terway/types"
	"github.com/AliyunContainerService/terway/zz_verif/vt"
)

// C19 closed loop: everything that is advertised for a node in CRD mode, computed by
// the real code end to end and compared with the raw instance-type description:
//
//	k8s node (labels) --node controller--> Node CR with NodeCap (real limit provider)
//	      --daemon-side nodeReconcile (eni-config)--> ENISpec, flavor, pool
//	      [--harness: the interfaces the pool controller would have attached--]
//	      --node controller--> max-available-ip annotation, aliyun/eni, aliyun/member-eni
type c19LoopScenario struct {
	EniQuantity      int  `json:"eni_quantity"`
	EniTotalQuantity int  `json:"eni_total_quantity"`
	V4               int  `json:"v4_per_eni"`
	V6               int  `json:"v6_per_eni"`
	Eri              int  `json:"eri_quantity"`
	Trunk            bool `json:"trunk_supported"`
	Noise            int  `json:"noise"`

	LinJun      bool `json:"lingjun"`
	LeniQuota   int  `json:"leni_quota"`
	LniSipQuota int  `json:"lni_sip_quota"`

	Exclusive string  `json:"exclusive_label"` // label on the k8s node ("" = absent)
	Conf      c19Conf `json:"conf"`
	OSERDMA   bool    `json:"os_erdma"`

	TrunkAttached int `json:"trunk_attached"` // 0 no trunk ENI in the CR status, 1 attached and InUse, 2 still Attaching
	StaleAnno     int `json:"stale_anno"`     // pre-existing max-available-ip annotation (0 = none)
	Rounds        int `json:"rounds"`         // controller reconciles after the daemon reported

	// Resize: the same instance (same instance id, same node) is stopped, changed to
	// another instance type and started again: the instance-type label changes and the
	// whole loop runs once more; everything advertised must then fit the NEW type.
	Resize *c19Vec `json:"resize,omitempty"`
}

// c19Vec is an instance-type description.
type c19Vec struct {
	EniQuantity      int  `json:"eni_quantity"`
	EniTotalQuantity int  `json:"eni_total_quantity"`
	V4               int  `json:"v4_per_eni"`
	V6               int  `json:"v6_per_eni"`
	Eri              int  `json:"eri_quantity"`
	Trunk            bool `json:"trunk_supported"`
}

func (v c19Vec) instanceType(id string) ecs.InstanceType {
	return ecs.InstanceType{
		InstanceTypeId: id, EniQuantity: v.EniQuantity, EniTotalQuantity: v.EniTotalQuantity,
		EniPrivateIpAddressQuantity: v.V4, EniIpv6AddressQuantity: v.V6, EriQuantity: v.Eri, EniTrunkSupported: v.Trunk,
	}
}

// caps: what an instance of this type can deliver, from the raw description only.
func (v c19Vec) caps() c19Caps {
	caps := c19Caps{Slots: v.EniQuantity - 1, V4: v.V4, V6: v.V6, Eri: v.Eri}
	if v.Trunk {
		caps.Member = v.EniTotalQuantity - v.EniQuantity
	}
	if caps.Eri > caps.Slots {
		caps.Eri = caps.Slots
	}
	return caps
}

// c19GenResize draws the type an instance is changed to: half of the time a smaller
// one (every field <= the old one), otherwise unrelated.
func c19GenResize(t *rapid.T, a c19Vec) *c19Vec {
	b := c19Vec{}
	if rapid.Bool().Draw(t, "resizeSmaller") {
		b.EniQuantity = rapid.IntRange(1, a.EniQuantity).Draw(t, "bEniQuantity")
		b.EniTotalQuantity = b.EniQuantity + rapid.IntRange(0, a.EniTotalQuantity-a.EniQuantity).Draw(t, "bMembers")
		b.V4 = rapid.IntRange(1, a.V4).Draw(t, "bV4")
		b.V6 = rapid.SampledFrom([]int{0, b.V4, a.V6}).Draw(t, "bV6")
		b.Eri = rapid.IntRange(0, a.Eri).Draw(t, "bEri")
		b.Trunk = a.Trunk && rapid.Bool().Draw(t, "bTrunk")
	} else {
		b.EniQuantity = rapid.IntRange(1, 32).Draw(t, "bEniQuantity")
		b.EniTotalQuantity = b.EniQuantity + rapid.IntRange(0, 120).Draw(t, "bMembers")
		b.V4 = rapid.IntRange(1, 50).Draw(t, "bV4")
		b.V6 = rapid.SampledFrom([]int{0, b.V4, 1}).Draw(t, "bV6")
		b.Eri = rapid.IntRange(0, 4).Draw(t, "bEri")
		b.Trunk = rapid.Bool().Draw(t, "bTrunk")
	}
	return &b
}

func c19GenLoop(t *rapid.T) c19LoopScenario {
	s := c19LoopScenario{}
	s.EniQuantity = rapid.OneOf(rapid.IntRange(1, 4), rapid.IntRange(1, vt.Scale(32, 64)), rapid.IntRange(7, 9)).Draw(t, "eniQuantity")
	if rapid.SampledFrom([]bool{true, true, true, false}).Draw(t, "hasMembers") {
		s.EniTotalQuantity = s.EniQuantity + rapid.IntRange(1, 120).Draw(t, "members")
	} else {
		s.EniTotalQuantity = s.EniQuantity
	}
	s.V4 = rapid.IntRange(1, 50).Draw(t, "v4")
	switch rapid.IntRange(0, 9).Draw(t, "v6Class") {
	case 0, 1, 2:
		s.V6 = 0
	case 3, 4, 5, 6:
		s.V6 = s.V4
	default:
		s.V6 = rapid.IntRange(1, 50).Draw(t, "v6")
	}
	s.Eri = rapid.IntRange(0, 4).Draw(t, "eri")
	s.Trunk = rapid.SampledFrom([]bool{true, true, true, false}).Draw(t, "trunk")
	s.Noise = rapid.IntRange(0, 2).Draw(t, "noise")
	s.LinJun = rapid.SampledFrom([]bool{false, false, false, false, false, false, false, false, false, true}).Draw(t, "lingjun")
	s.LeniQuota = rapid.IntRange(1, 16).Draw(t, "leniQuota")
	s.LniSipQuota = rapid.IntRange(1, 50).Draw(t, "lniSipQuota")
	s.Exclusive = rapid.SampledFrom([]string{"", "", "", "default", "eniOnly", "ENIONLY"}).Draw(t, "exclusive")
	s.Conf = c19GenConf(t, (s.EniQuantity-1)*s.V4)
	s.OSERDMA = rapid.SampledFrom([]bool{true, true, true, false}).Draw(t, "osERDMA")
	s.TrunkAttached = rapid.SampledFrom([]int{1, 1, 0, 2}).Draw(t, "trunkAttached")
	if rapid.SampledFrom([]bool{false, false, true}).Draw(t, "stale") {
		s.StaleAnno = rapid.SampledFrom([]int{1, 7, 99999}).Draw(t, "staleAnno")
	}
	s.Rounds = rapid.IntRange(1, 2).Draw(t, "rounds")
	if !s.LinJun && rapid.SampledFrom([]bool{false, true, true}).Draw(t, "resize") {
		s.Resize = c19GenResize(t, c19Vec{s.EniQuantity, s.EniTotalQuantity, s.V4, s.V6, s.Eri, s.Trunk})
	}
	return s
}

// c19Cloud answers the two calls the node controller makes; anything else is a harness
// bug (nil embedded interface -> panic -> reported).
type c19Cloud struct {
	register.Interface
	types []ecs.InstanceType
	eflo  *eflo.Content
}

func (e *c19Cloud) DescribeInstanceTypes(_ context.Context, _ []string) ([]ecs.InstanceType, error) {
	return e.types, nil
}

func (e *c19Cloud) GetNodeInfoForPod(_ context.Context, _ string) (*eflo.Content, error) {
	return e.eflo, nil
}

func c19DrainNotify() {
	for {
		select {
		case <-multiipnode.EventCh:
		default:
			return
		}
	}
}

func c19RunLoop(c *vt.Ctx, s c19LoopScenario) {
	ctx := context.Background()
	// package-level state: node capability store; the ECS limit provider caches
	// instance types for 15 days; the notify channel of the pool controller
	c19SetOSERDMA(s.OSERDMA)
	defer c19SetOSERDMA(false)
	aliyunClient.LimitProviders["ecs"] = aliyunClient.NewECSLimitProvider()
	c19DrainNotify()

	const typeA, typeB = "ecs.c19.large", "ecs.c19b.large"
	vecA := c19Vec{s.EniQuantity, s.EniTotalQuantity, s.V4, s.V6, s.Eri, s.Trunk}
	cloud := &c19Cloud{eflo: &eflo.Content{LeniQuota: s.LeniQuota, LniSipQuota: s.LniSipQuota}}
	for i := 0; i < s.Noise; i++ {
		cloud.types = append(cloud.types, ecs.InstanceType{
			InstanceTypeId: fmt.Sprintf("ecs.noise%d.huge", i), EniQuantity: 64, EniTotalQuantity: 512,
			EniPrivateIpAddressQuantity: 100, EniIpv6AddressQuantity: 100, EriQuantity: 8, EniTrunkSupported: true,
		})
	}
	cloud.types = append(cloud.types, vecA.instanceType(typeA))
	if s.Resize != nil {
		cloud.types = append(cloud.types, s.Resize.instanceType(typeB))
	}

	k8sNode := &corev1.Node{
		ObjectMeta: metav1.ObjectMeta{
			Name: c19NodeName,
			Labels: map[string]string{
				corev1.LabelInstanceTypeStable: typeA,
				corev1.LabelTopologyZone:       c19Zone,
				corev1.LabelTopologyRegion:     "cn-hangzhou",
			},
			Annotations: map[string]string{},
		},
		Spec: corev1.NodeSpec{ProviderID: "cn-hangzhou.i-c19"},
	}
	if s.Exclusive != "" {
		k8sNode.Labels[terwayTypes.ExclusiveENIModeLabel] = s.Exclusive
	}
	if s.LinJun {
		k8sNode.Labels[terwayTypes.LinJunNodeLabelKey] = "true"
	}
	if s.StaleAnno != 0 {
		k8sNode.Annotations[string(terwayTypes.NormalIPTypeIPs)] = strconv.Itoa(s.StaleAnno)
	}
	// LingJun nodes have no exclusive-ENI mode (the label is not carried to the CR)
	exclusive := !s.LinJun && terwayTypes.NodeExclusiveENIMode(k8sNode.Labels) == terwayTypes.ExclusiveENIOnly

	cl := fake.NewClientBuilder().WithScheme(terwayTypes.Scheme).
		WithStatusSubresource(&networkv1beta1.Node{}).
		WithObjects(k8sNode, s.Conf.configMap(c)).Build()
	ctl := ctlnode.VerifC19NewReconcileNode(cl, terwayTypes.Scheme, cloud, c19Recorder{}, true)
	dmn := c19NewDaemonReconciler(cl)
	req := reconcile.Request{NamespacedName: k8stypes.NamespacedName{Name: c19NodeName}}
	// a refused reconcile is not a violation (nothing new is advertised): the first ones
	// must succeed for the case to mean anything, later ones are only made visible and
	// the node is inspected as it stands
	controller := func(step string, must bool) {
		_, err := ctl.Reconcile(ctx, req)
		c19DrainNotify()
		if err != nil {
			c.Trace("%s: node controller Reconcile failed: %v", step, err)
			if must {
				c.Inconclusive("controller reconcile refused: " + step)
			}
			c.Label("reconcile-error:" + step)
		}
	}

	capsA := vecA.caps()
	if s.LinJun {
		capsA = c19Caps{Slots: s.LeniQuota - 1, V4: s.LniSipQuota}
		c.Label("lingjun")
	}
	nt := c19Classify(c, s.Conf, capsA, exclusive, s.OSERDMA) || s.StaleAnno > capsA.Slots*capsA.V4
	if s.Resize != nil {
		capsB := s.Resize.caps()
		if capsB.Slots*capsB.V4 < capsA.Slots*capsA.V4 || capsB.Member < capsA.Member || capsB.Eri < capsA.Eri || (capsB.V6 == 0 && capsA.V6 > 0) {
			c.Label("resize:shrinks")
			nt = true // what was advertised for the old type is above the new limits
		} else {
			c.Label("resize:grows-or-same")
		}
	}
	if nt {
		c.NonTrivial()
	}

	trunkAttached, trunkInUse := false, false
	// one pass of the loop for the instance type the node currently has
	pass := func(name string, caps c19Caps) {
		// ---- 1. node controller creates / refreshes the CR
		controller(name+"first", true)
		// ---- 2. daemon-side reconcile
		if _, err := dmn.Reconcile(ctx, req); err != nil {
			c.Trace("%sdaemon-side Reconcile failed: %v", name, err)
			c.Inconclusive("daemon-side reconcile refused")
		}
		cr := &networkv1beta1.Node{}
		if err := cl.Get(ctx, client.ObjectKey{Name: c19NodeName}, cr); err != nil {
			c.Fatalf("get Node CR: %v", err)
		}
		c.Trace("%sCR after daemon reconcile: labels=%v meta=%+v cap=%+v eni=%+v flavor=%+v pool=%+v", name, cr.Labels, cr.Spec.NodeMetadata, cr.Spec.NodeCap, cr.Spec.ENISpec, cr.Spec.Flavor, cr.Spec.Pool)
		if got := terwayTypes.NodeExclusiveENIMode(cr.Labels) == terwayTypes.ExclusiveENIOnly; got != exclusive {
			c.Fatalf("exclusive mode of the k8s node (%v) not carried to the Node CR (%v)", exclusive, got)
		}
		sum := c19CheckCR(c, name+"closed loop", cr, caps, exclusive, s.LinJun)

		// ---- the pool controller attaches the trunk interface (if the flavor has one)
		if sum.Trunk > 0 && s.TrunkAttached != 0 && !trunkAttached {
			trunkAttached = true
			st := aliyunClient.ENIStatusInUse
			if s.TrunkAttached == 2 {
				st = aliyunClient.ENIStatusAttaching
			}
			trunkInUse = s.TrunkAttached == 1
			cr.Status.NetworkInterfaces = map[string]*networkv1beta1.NetworkInterface{
				"eni-trunk": {ID: "eni-trunk", NetworkInterfaceType: networkv1beta1.ENITypeTrunk, Status: st},
				"eni-1":     {ID: "eni-1", NetworkInterfaceType: networkv1beta1.ENITypeSecondary, Status: aliyunClient.ENIStatusInUse},
			}
			if err := cl.Status().Update(ctx, cr); err != nil {
				c.Fatalf("harness: update Node CR status: %v", err)
			}
		}

		// ---- 3. node controller publishes
		for i := 0; i < s.Rounds; i++ {
			controller(name+"after-daemon", false)
		}
		got := &corev1.Node{}
		if err := cl.Get(ctx, client.ObjectKey{Name: c19NodeName}, got); err != nil {
			c.Fatalf("get node: %v", err)
		}
		c.Trace("%snode annotations %v allocatable %v capacity %v", name, got.Annotations, got.Status.Allocatable, got.Status.Capacity)
		if c.Replaying() {
			c.Logf("%sCR cap=%+v flavor=%+v; node annotations %v allocatable %v", name, cr.Spec.NodeCap, cr.Spec.Flavor, got.Annotations, got.Status.Allocatable)
		}

		annoIP := -1
		if v, ok := got.Annotations[string(terwayTypes.NormalIPTypeIPs)]; ok {
			n, err := strconv.Atoi(v)
			if err != nil {
				c.Fatalf("%sannotation %s = %q is not a number", name, terwayTypes.NormalIPTypeIPs, v)
			}
			annoIP = n
		}
		quantity := func(res string) (int64, bool) {
			a, okA := got.Status.Allocatable[corev1.ResourceName(res)]
			cp, okC := got.Status.Capacity[corev1.ResourceName(res)]
			if !okA && !okC {
				return 0, false
			}
			v := a.Value()
			if cp.Value() > v {
				v = cp.Value()
			}
			return v, true
		}
		if s.LinJun {
			if annoIP >= 0 && annoIP != s.StaleAnno {
				c.Fatalf("LingJun node got max-available-ip = %d", annoIP)
			}
			return
		}
		if exclusive {
			if annoIP > caps.Slots {
				c.Fatalf("%sexclusive mode: max-available-ip = %d, the instance can attach %d secondary interfaces", name, annoIP, caps.Slots)
			}
			if q, ok := quantity(deviceplugin.ENIResName); ok {
				if q < 0 || q > int64(caps.Slots) {
					c.Fatalf("%sexclusive mode: %s = %d, the instance can attach %d secondary interfaces", name, deviceplugin.ENIResName, q, caps.Slots)
				}
				c.Label("res:eni")
			}
		} else if annoIP > caps.Slots*caps.V4 {
			c.Fatalf("%smax-available-ip = %d exceeds %d secondary interfaces x %d addresses", name, annoIP, caps.Slots, caps.V4)
		}
		if annoIP >= 0 {
			c.Label("anno:present")
		} else {
			c.Label("anno:absent")
		}
		if q, ok := quantity(deviceplugin.MemberENIResName); ok {
			if q < 0 || q > int64(caps.Member) {
				c.Fatalf("%s%s = %d exceeds the member limit %d of the instance type", name, deviceplugin.MemberENIResName, q, caps.Member)
			}
			if q > 0 && (exclusive || !s.Conf.Trunking) {
				c.Label("res:member-eni-unasked") // not an instance limit; visible in the evidence
			}
			c.Label("res:member-eni")
		} else if trunkInUse {
			c.Label("trunk-in-use:no-member-res")
		}
	}

	pass("", capsA)

	if s.Resize != nil {
		// the instance comes back as another type: same instance id, same node object,
		// new instance-type label (kubelet / cloud-controller-manager republish it)
		cur := &corev1.Node{}
		if err := cl.Get(ctx, client.ObjectKey{Name: c19NodeName}, cur); err != nil {
			c.Fatalf("harness: get node: %v", err)
		}
		cur.Labels[corev1.LabelInstanceTypeStable] = typeB
		if err := cl.Update(ctx, cur); err != nil {
			c.Fatalf("harness: update node label: %v", err)
		}
		c.Trace("instance resized in place: %+v -> %+v", vecA, *s.Resize)
		pass("after resize: ", s.Resize.caps())
	}
}

func TestVerifC19ClosedLoop(t *testing.T) {
	vt.Run(t, c19GenLoop, c19RunLoop)
}
