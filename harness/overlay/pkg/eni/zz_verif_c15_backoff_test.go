package eni

// C15 — the `backoff_override` of the eni-config ConfigMap followed into its consumers.
// The document is parsed and applied exactly as the daemon does (MergeConfigAndUnmarshal,
// Populate, Validate, backoff.OverrideBackoff(cfg.BackoffOverride) — daemon/builder.go),
// then the code that waits with those backoffs is driven once each as far as it goes
// without a cloud: Remote.Allocate, CRDV2.Allocate (multi-IP and remote/getTrunkENI) over
// a fake API server with and without matching objects, with a live and with an already
// cancelled request context.
//
// These calls answer from goroutines they start themselves; a panic there cannot be
// recovered by the caller and kills the process. Every case therefore runs in a child
// process (the test binary re-executed with TestVerifC15BackoffChild); the child dying
// with a Go panic is the violation. This also keeps the overridden backoff table out of
// the parent process.

import (
	"bytes"
	"context"
	"encoding/json"
	"fmt"
	"os"
	"os/exec"
	"strings"
	"sync"
	"testing"
	"time"

	corev1 "k8s.io/api/core/v1"
	metav1 "k8s.io/apimachinery/pkg/apis/meta/v1"
	"k8s.io/apimachinery/pkg/runtime"
	"sigs.k8s.io/controller-runtime/pkg/client/fake"

	networkv1beta1 "github.com/AliyunContainerService/terway/pkg/apis/network.alibabacloud.com/v1beta1"
	"github.com/AliyunContainerService/terway/pkg/backoff"
	"github.com/AliyunContainerService/terway/types"
	"github.com/AliyunContainerService/terway/types/daemon"
	g "github.com/AliyunContainerService/terway/zz_verif/c15gen"
	"github.com/AliyunContainerService/terway/zz_verif/vt"
	"pgregory.net/rapid"
)

type vfC15BackoffScenario struct {
	Kind     string  `json:"kind"`
	ENIConf  g.Bytes `json:"eni_conf"`
	PodENI   int     `json:"pod_eni"`   // 0 none, 1 bound+matching, 2 bound other uid, 3 not bound, 4 no allocations, 5 deleting
	NodeCR   int     `json:"node_cr"`   // 0 none, 1 not initialised, 2 no trunk + address for the pod, 3 trunk
	Cancel   bool    `json:"cancelled"` // the request context is cancelled before the call
	Trunk    bool    `json:"trunk"`     // Remote serves a trunk ENI
	OtherENI bool    `json:"other_trunk"`
}

var vfC15BackoffKeys = []string{backoff.WaitPodENIStatus, backoff.WaitPodENIStatus, backoff.DefaultKey, backoff.ENICreate, backoff.ENIOps,
	backoff.ENIRelease, backoff.ENIIPOps, backoff.WaitENIStatus, backoff.MetaAssignPrivateIP, backoff.MetaUnAssignPrivateIP,
	backoff.WaitStsTokenReady, backoff.WaitNodeStatus, "no_such_backoff", "WAIT_PODENI_STATUS"}

// vfC15ValidBackoffConf: a well-formed eni_conf whose backoff_override names 1..3 backoffs,
// each with any subset of Duration / Factor / Jitter / Steps / Cap.
func vfC15ValidBackoffConf(t *rapid.T) []byte {
	var m map[string]any
	_ = json.Unmarshal(g.ENIConf(t), &m)
	delete(m, "ip_stack") // keep the rest of the document valid: this target is about the override
	delete(m, "security_groups")
	ov := map[string]any{}
	for i, n := 0, rapid.IntRange(1, 3).Draw(t, "nkeys"); i < n; i++ {
		b := map[string]any{}
		field := func(name string, vals []any) {
			if rapid.IntRange(0, 2).Draw(t, name) > 0 {
				b[name] = rapid.SampledFrom(vals).Draw(t, name+"_v")
			}
		}
		field("Duration", []any{0, 1, 1000000, 1000000000, 5000000000, -1, 9223372036854775807})
		field("Factor", []any{0, 1, 1.5, 2, -1, 1e300})
		field("Jitter", []any{0, 0.3, 1.3, -1, 1e300})
		field("Steps", []any{0, 1, 2, 20, -1, 2147483647})
		field("Cap", []any{0, 1000000, 60000000000, -1})
		ov[rapid.SampledFrom(vfC15BackoffKeys).Draw(t, "key")] = b
	}
	m["backoff_override"] = ov
	return g.MustJSON(m)
}

var vfC15BackoffHostile = []string{
	`{"backoff_override":{"wait_podeni_status":{"Duration":1000000000,"Factor":1}}}`,
	`{"backoff_override":{"wait_podeni_status":{}}}`, `{"backoff_override":{"wait_podeni_status":{"Steps":-1}}}`,
	`{"backoff_override":{"wait_podeni_status":{"Steps":0,"Duration":0}}}`, `{"backoff_override":{"wait_podeni_status":null}}`,
	`{"backoff_override":{"":{}}}`, `{"backoff_override":{"":{"Steps":1000000,"Duration":0}}}`, `{"backoff_override":null}`,
	`{"backoff_override":{"wait_podeni_status":{"steps":1,"duration":1}}}`, `{"backoff_override":{"wait_podeni_status":{"Duration":"1s"}}}`,
	`{"backoff_override":{"wait_podeni_status":{"Steps":1,"Jitter":1e308,"Factor":1e308,"Duration":9223372036854775807}}}`, `{}`,
}

func vfC15GenBackoff(t *rapid.T) vfC15BackoffScenario {
	s := vfC15BackoffScenario{Kind: g.Kind(t)}
	s.ENIConf = g.JSONField(t, s.Kind, vfC15ValidBackoffConf, vfC15BackoffHostile)
	s.PodENI = rapid.SampledFrom([]int{0, 1, 1, 1, 2, 3, 4, 5}).Draw(t, "podeni")
	s.NodeCR = rapid.IntRange(0, 3).Draw(t, "nodecr")
	s.Cancel = rapid.IntRange(0, 3).Draw(t, "cancel") == 0
	s.Trunk = rapid.Bool().Draw(t, "trunk")
	s.OtherENI = rapid.IntRange(0, 3).Draw(t, "othertrunk") == 0
	return s
}

const vfC15BackoffEnv = "VERIF_C15_BACKOFF_CHILD"

// vfC15RunBackoff: parent side.
func vfC15RunBackoff(c g.Sink, s vfC15BackoffScenario) {
	c.Label("kind:" + s.Kind)
	js, err := json.Marshal(s)
	if err != nil {
		c.Inconclusive("marshal")
	}
	ctx, cancel := context.WithTimeout(context.Background(), 60*time.Second)
	defer cancel()
	cmd := exec.CommandContext(ctx, os.Args[0], "-test.run", "^TestVerifC15BackoffChild$")
	cmd.Env = append(os.Environ(), vfC15BackoffEnv+"="+string(js), "VERIF_OUT=", "VERIF_REPLAY=", "VERIF_REPLAYS=")
	var out, errb bytes.Buffer
	cmd.Stdout, cmd.Stderr = &out, &errb
	runErr := cmd.Run()
	for _, l := range strings.Split(out.String(), "\n") {
		if strings.HasPrefix(l, "label ") {
			c.Label(strings.TrimPrefix(l, "label "))
		}
	}
	if strings.Contains(out.String(), "label depth2-override-applied") {
		c.NonTrivial()
	}
	if runErr == nil {
		return
	}
	all := errb.String() + out.String()
	if i := strings.Index(all, "panic: "); i >= 0 || strings.Contains(all, "fatal error: ") || strings.Contains(all, "SIGSEGV") {
		if i < 0 {
			i = 0
		}
		end := i + 2500
		if end > len(all) {
			end = len(all)
		}
		c.Fatalf("the process died while the backoff consumers ran (eni_conf %q):\n%s", string(s.ENIConf), all[i:end])
	}
	if ctx.Err() != nil {
		c.Inconclusive("child timed out")
	}
	c.Inconclusive("child failed without a panic: " + runErr.Error())
}

func TestVerifC15BackoffOverride(t *testing.T) {
	vt.Run(t, vfC15GenBackoff, g.NoPanic(g.Adapt(vfC15RunBackoff)))
}

// TestVerifC15BackoffChild is the child side; it only does something when the parent set
// the scenario in the environment.
func TestVerifC15BackoffChild(t *testing.T) {
	raw := os.Getenv(vfC15BackoffEnv)
	if raw == "" {
		t.Skip("child of TestVerifC15BackoffOverride")
	}
	var s vfC15BackoffScenario
	if err := json.Unmarshal([]byte(raw), &s); err != nil {
		fmt.Println("bad scenario", err)
		os.Exit(3)
	}
	vfC15BackoffChild(s)
	os.Exit(0)
}

func vfC15BackoffChild(s vfC15BackoffScenario) {
	// daemon: GetConfigFromFileWithMerge -> Populate -> Validate -> ... -> backoff.OverrideBackoff
	cfg, err := daemon.MergeConfigAndUnmarshal(nil, s.ENIConf)
	if err != nil {
		fmt.Println("label depth0-config-rejected")
		return
	}
	cfg.Populate()
	if err := cfg.Validate(); err != nil {
		fmt.Println("label depth1-config-invalid")
		return
	}
	backoff.OverrideBackoff(cfg.BackoffOverride)
	fmt.Println("label depth2-override-applied")
	if b := backoff.Backoff(backoff.WaitPodENIStatus); b.Steps <= 0 {
		fmt.Println("label wait_podeni_status:steps<=0")
	}

	const podUID = "uid-1"
	objs := []runtime.Object{}
	if s.PodENI > 0 {
		pe := &networkv1beta1.PodENI{ObjectMeta: metav1.ObjectMeta{Name: "p", Namespace: "ns", UID: "pe-1", Annotations: map[string]string{types.PodUID: podUID}}}
		pe.Spec.Allocations = []networkv1beta1.Allocation{{IPv4: "10.0.0.2", IPv4CIDR: "10.0.0.0/24", ENI: networkv1beta1.ENI{ID: "eni-m", MAC: "00:16:3e:00:00:02"}}}
		pe.Status.Phase = networkv1beta1.ENIPhaseBind
		pe.Status.TrunkENIID = "eni-trunk"
		if s.OtherENI {
			pe.Status.TrunkENIID = "eni-other"
		}
		switch s.PodENI {
		case 2:
			pe.Annotations[types.PodUID] = "uid-other"
		case 3:
			pe.Status.Phase = networkv1beta1.ENIPhaseBinding
		case 4:
			pe.Spec.Allocations = nil
		case 5:
			now := metav1.Now()
			pe.DeletionTimestamp = &now
			pe.Finalizers = []string{"pod-eni"}
		}
		objs = append(objs, pe)
	}
	if s.NodeCR > 0 {
		n := &networkv1beta1.Node{ObjectMeta: metav1.ObjectMeta{Name: "node-1"}}
		if s.NodeCR >= 2 {
			n.Spec.ENISpec = &networkv1beta1.ENISpec{EnableTrunk: s.NodeCR == 3, EnableIPv4: true}
			n.Status.NetworkInterfaces = map[string]*networkv1beta1.NetworkInterface{
				"eni-1": {ID: "eni-1", Status: "InUse", MacAddress: "00:16:3e:00:00:01", IPv4CIDR: "10.0.0.0/24",
					IPv4: map[string]*networkv1beta1.IP{"10.0.0.2": {IP: "10.0.0.2", Status: networkv1beta1.IPStatusValid, PodID: "ns/p", PodUID: podUID}}},
				"eni-trunk": {ID: "eni-trunk", Status: "InUse", MacAddress: "00:16:3e:00:00:09"},
			}
		}
		objs = append(objs, n, &corev1.Node{ObjectMeta: metav1.ObjectMeta{Name: "node-1", Annotations: map[string]string{types.TrunkOn: "eni-trunk"}}})
	}
	cl := fake.NewClientBuilder().WithScheme(types.Scheme).WithRuntimeObjects(objs...).Build()

	cni := &daemon.CNI{PodName: "p", PodNamespace: "ns", PodID: "ns/p", PodUID: podUID}
	var trunk *daemon.ENI
	if s.Trunk {
		trunk = &daemon.ENI{ID: "eni-trunk", MAC: "00:16:3e:00:00:09", Trunk: true}
	}
	crd := &CRDV2{client: cl, nodeName: "node-1", deletedPods: map[string]*networkv1beta1.RuntimePodStatus{}}

	calls := []func(ctx context.Context) (chan *AllocResp, []Trace){
		func(ctx context.Context) (chan *AllocResp, []Trace) {
			return NewRemote(cl, trunk).Allocate(ctx, cni, &RemoteIPRequest{})
		},
		func(ctx context.Context) (chan *AllocResp, []Trace) {
			return crd.Allocate(ctx, cni, NewLocalIPRequest())
		},
		func(ctx context.Context) (chan *AllocResp, []Trace) {
			return crd.Allocate(ctx, cni, &RemoteIPRequest{})
		},
	}
	var wg sync.WaitGroup
	var mu sync.Mutex
	for i, call := range calls {
		wg.Add(1)
		go func() {
			defer wg.Done()
			ctx, cancel := context.WithTimeout(context.Background(), 150*time.Millisecond)
			defer cancel()
			if s.Cancel {
				cancel()
			}
			ch, _ := call(ctx)
			res := "none"
			if ch != nil {
				select {
				case r := <-ch:
					switch {
					case r == nil:
						res = "nil"
					case r.Err != nil:
						res = "error"
					default:
						res = "ok"
						for _, nc := range r.NetworkConfigs { // what the Manager / daemon do with an answer
							_ = nc.ResourceType()
							_ = nc.ToRPC()
							_ = nc.ToStore()
						}
					}
				case <-ctx.Done():
					res = "deadline"
				}
			}
			mu.Lock()
			fmt.Printf("label call%d:%s\n", i, res)
			mu.Unlock()
		}()
	}
	wg.Wait()
	// the workers answer (or give up) right after the context ends; leave them the time to
	// get there, a panic after the deadline is still a panic of the daemon
	time.Sleep(30 * time.Millisecond)
}
