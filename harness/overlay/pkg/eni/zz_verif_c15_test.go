package eni

// C15 — stored records (the daemon's resource database) never panic the ENI pool when it
// restores its state: Local.load (through Local's Run path without the workers).

import (
	"encoding/json"
	"fmt"
	"net"
	"net/netip"
	"testing"

	"github.com/AliyunContainerService/terway/types"
	"github.com/AliyunContainerService/terway/types/daemon"
	g "github.com/AliyunContainerService/terway/zz_verif/c15gen"
	"github.com/AliyunContainerService/terway/zz_verif/vt"
	"pgregory.net/rapid"
)

type vfC15LoadScenario struct {
	Kind     string    `json:"kind"`
	Records  []g.Bytes `json:"records"`
	Cap      int       `json:"cap"`
	NoENI    bool      `json:"no_eni"`
	FailLoad bool      `json:"fail_load"`
}

func vfC15GenLoad(t *rapid.T) vfC15LoadScenario {
	s := vfC15LoadScenario{Kind: g.Kind(t)}
	n := rapid.IntRange(1, 3).Draw(t, "n")
	mut := rapid.IntRange(0, n-1).Draw(t, "mut")
	for i := 0; i < n; i++ {
		k := s.Kind
		if k == g.KindMutated && i != mut {
			k = g.KindValid
		}
		s.Records = append(s.Records, g.JSONField(t, k, g.PodResources, g.PodResourcesHostile))
	}
	s.Cap = rapid.SampledFrom([]int{10, 10, 10, 2, 1, 0}).Draw(t, "cap")
	s.NoENI = rapid.IntRange(0, 15).Draw(t, "noeni") == 0
	s.FailLoad = rapid.IntRange(0, 15).Draw(t, "failload") == 0
	return s
}

type vfC15Factory struct {
	fail bool
}

func (f *vfC15Factory) CreateNetworkInterface(ipv4, ipv6 int, eniType string) (*daemon.ENI, []netip.Addr, []netip.Addr, error) {
	return nil, nil, nil, fmt.Errorf("not in this harness")
}
func (f *vfC15Factory) AssignNIPv4(string, int, string) ([]netip.Addr, error) {
	return nil, fmt.Errorf("not in this harness")
}
func (f *vfC15Factory) AssignNIPv6(string, int, string) ([]netip.Addr, error) {
	return nil, fmt.Errorf("not in this harness")
}
func (f *vfC15Factory) UnAssignNIPv4(string, []netip.Addr, string) error { return nil }
func (f *vfC15Factory) UnAssignNIPv6(string, []netip.Addr, string) error { return nil }
func (f *vfC15Factory) DeleteNetworkInterface(string) error              { return nil }
func (f *vfC15Factory) GetAttachedNetworkInterface(string) ([]*daemon.ENI, error) {
	return nil, nil
}
func (f *vfC15Factory) LoadNetworkInterface(mac string) ([]netip.Addr, []netip.Addr, error) {
	if f.fail {
		return nil, nil, fmt.Errorf("metadata unavailable")
	}
	var v4, v6 []netip.Addr
	for _, s := range g.RecIPv4 {
		v4 = append(v4, netip.MustParseAddr(s))
	}
	for _, s := range g.RecIPv6 {
		v6 = append(v6, netip.MustParseAddr(s))
	}
	return v4, v6, nil
}

func vfC15RunLoad(c g.Sink, s vfC15LoadScenario) {
	c.Label("kind:" + s.Kind)
	// the daemon's deserialiser (daemon/builder.go InitResourceDB): Unmarshal into
	// daemon.PodResources; an error aborts start-up.
	var list []daemon.PodResources
	for _, r := range s.Records {
		rec := &daemon.PodResources{}
		if err := json.Unmarshal(r, rec); err != nil {
			if json.Valid(r) {
				c.Label("depth1-json-wrong-shape")
			} else {
				c.Label("depth0-not-json")
			}
			return
		}
		list = append(list, *rec)
	}
	c.NonTrivial()
	for _, r := range list {
		if r.PodInfo == nil {
			c.Label("class:nil-podinfo")
			if vt.Known("C15-record-nil-podinfo") {
				c.Label("known:C15-record-nil-podinfo")
				return
			}
			break
		}
	}
	var e *daemon.ENI
	if !s.NoENI {
		e = &daemon.ENI{ID: g.RecENIID, MAC: g.RecENIMAC,
			PrimaryIP: types.IPSet{IPv4: net.ParseIP(g.RecIPv4[0])}, GatewayIP: types.IPSet{IPv4: net.ParseIP("10.0.0.253")}}
	}
	l := NewLocal(e, "secondary", &vfC15Factory{fail: s.FailLoad}, &daemon.PoolConfig{BatchSize: 10, MaxIPPerENI: s.Cap, EnableIPv4: true, EnableIPv6: true})
	if err := l.load(list); err != nil {
		c.Label("depth2-load-rejected")
		return
	}
	c.Label("depth3-loaded")
	used := 0
	for _, ip := range l.ipv4 {
		if ip.InUse() {
			used++
		}
	}
	for _, ip := range l.ipv6 {
		if ip.InUse() {
			used++
		}
	}
	if used > 0 {
		c.Label("restored-allocations")
	}
	_ = l.Status()
	_ = l.Priority()
}

func TestVerifC15LocalLoad(t *testing.T) { vt.Run(t, vfC15GenLoad, g.NoPanic(g.Adapt(vfC15RunLoad))) }

// Deterministic witness, printed only while the finding is listed as open.
func TestVerifC15KnownWitnessRecordNilPodInfo(t *testing.T) {
	if !vt.Known("C15-record-nil-podinfo") {
		t.Skip("not listed as an open finding")
	}
	panicked := false
	func() {
		defer func() {
			if recover() != nil {
				panicked = true
			}
		}()
		e := &daemon.ENI{ID: g.RecENIID, MAC: g.RecENIMAC, PrimaryIP: types.IPSet{IPv4: net.ParseIP(g.RecIPv4[0])}}
		l := NewLocal(e, "secondary", &vfC15Factory{}, &daemon.PoolConfig{BatchSize: 10, MaxIPPerENI: 10, EnableIPv4: true})
		_ = l.load([]daemon.PodResources{{}})
	}()
	if panicked {
		vt.KnownFindingLine("C15", "a resource-database record without PodInfo (e.g. `{}`) makes eni.Local.load dereference nil at start-up")
	}
}
