package eni

import (
	"testing"

	g "github.com/AliyunContainerService/terway/zz_verif/c15gen"
)

// FuzzVerifC15LocalLoad: one record of the resource database (as decoded by the daemon's
// deserialiser) restored by Local.load (oracle of TestVerifC15LocalLoad).
func FuzzVerifC15LocalLoad(f *testing.F) {
	f.Add([]byte(`{"Resources":[{"type":"eniIp","id":"00:16:3e:00:00:01.10.0.0.2","extra_eip_info":null,"eni_id":"eni-1","eni_mac":"00:16:3e:00:00:01","ipv4":"10.0.0.2","ipv6":"fd00::2"}],"PodInfo":{"Name":"p","Namespace":"ns","PodNetworkType":"ENIMultiIP","PodIPs":{"IPv4":"10.0.0.2","IPv6":null}},"NetNs":"/proc/1/ns/net","ContainerID":"abc","NetConf":"[]"}`), uint8(10), false)
	f.Add([]byte(`{"Resources":[{"type":"eniIp","id":"00:16:3e:00:00:01.10.0.0.3","eni_id":"","eni_mac":"","ipv4":"","ipv6":""}],"PodInfo":{"Name":"legacy","Namespace":"ns"}}`), uint8(2), false)
	for _, s := range append(g.FuzzHostile, g.PodResourcesHostile...) {
		f.Add([]byte(s), uint8(1), false)
	}
	f.Fuzz(func(t *testing.T, rec []byte, capacity uint8, noENI bool) {
		defer g.FuzzGuard(t, "FuzzVerifC15LocalLoad", rec, capacity, noENI)()
		vfC15RunLoad(g.FuzzSink{T: t}, vfC15LoadScenario{Kind: "fuzz", Records: []g.Bytes{g.Bytes(rec)}, Cap: int(capacity % 12), NoENI: noENI})
	})
}

// FuzzVerifC15BackoffOverride: eni_conf documents (backoff_override) under the
// coverage-guided fuzzer, applied and followed into Remote.Allocate / CRDV2.Allocate in a
// child process per input (oracle of TestVerifC15BackoffOverride; slow: a few thousand
// executions per run).
func FuzzVerifC15BackoffOverride(f *testing.F) {
	for _, s := range append(vfC15BackoffHostile, g.FuzzHostile...) {
		f.Add([]byte(s), uint8(1), false)
		f.Add([]byte(s), uint8(0), true)
	}
	f.Add([]byte(`{"backoff_override":{"wait_podeni_status":{"Duration":1000000,"Factor":1,"Jitter":0.3,"Steps":3}},"max_pool_size":5}`), uint8(1), false)
	f.Fuzz(func(t *testing.T, conf []byte, state uint8, cancelled bool) {
		defer g.FuzzGuard(t, "FuzzVerifC15BackoffOverride", conf, state, cancelled)()
		vfC15RunBackoff(g.FuzzSink{T: t}, vfC15BackoffScenario{Kind: "fuzz", ENIConf: g.Bytes(conf), PodENI: int(state % 6), NodeCR: int(state / 6 % 4),
			Trunk: state&64 != 0, OtherENI: state&128 != 0, Cancel: cancelled})
	})
}
