package eni

import (
	"context"

	"k8s.io/apimachinery/pkg/runtime"
	"sigs.k8s.io/controller-runtime/pkg/client"

	networkv1beta1 "github.com/AliyunContainerService/terway/pkg/apis/network.alibabacloud.com/v1beta1"
)

// Export shim for the C03 closed-loop harness (daemon package). The real constructor
// NewCRDV2 needs a kube config and starts a controller manager plus two timers
// (syncNodeRuntime every 3 s, syncDeletedPods every 5 min); the harness builds the
// allocator over its own client and fires the two periodic jobs as history actions.
// No logic here.

func C03NewCRDV2(c client.Client, scheme *runtime.Scheme, nodeName string) *CRDV2 {
	return &CRDV2{
		scheme:      scheme,
		client:      c,
		nodeName:    nodeName,
		deletedPods: make(map[string]*networkv1beta1.RuntimePodStatus),
	}
}

// C03SyncNodeRuntime is the 3 s job: flush recorded DELs to NodeRuntime.
func (r *CRDV2) C03SyncNodeRuntime(ctx context.Context) error { return r.syncNodeRuntime(ctx) }

// C03SyncDeletedPods is the 5 min job: drop forgotten entries, sync back UIDs in use.
func (r *CRDV2) C03SyncDeletedPods(ctx context.Context) error { return r.syncDeletedPods(ctx) }

// C03PendingDeleted lists the UIDs recorded as torn down but not flushed yet.
func (r *CRDV2) C03PendingDeleted() []string {
	r.lock.Lock()
	defer r.lock.Unlock()
	out := make([]string, 0, len(r.deletedPods))
	for k := range r.deletedPods {
		out = append(out, k)
	}
	return out
}
