package eni

import (
	"context"
	"time"

	"golang.org/x/time/rate"
	"k8s.io/apimachinery/pkg/util/cache"
)

// VerifSleepDivisor scales the hard-coded batching delay in factoryAllocWorker when the
// verification driver has rewritten `time.Sleep(300 * time.Millisecond)` into
// `time.Sleep(verifScale(...))` (see /verif/bin/check SLEEP_TRANSFORMS). 1 = unchanged.
var VerifSleepDivisor int64 = 1

func verifScale(d time.Duration) time.Duration {
	if VerifSleepDivisor <= 1 {
		return d
	}
	return d / time.Duration(VerifSleepDivisor)
}

// VerifFastPool removes the pool's cloud-call rate limit and scales the batching delay
// (harnesses outside this package cannot reach the unexported knobs).
func VerifFastPool(divisor int64) {
	rateLimit = rate.Inf
	VerifSleepDivisor = divisor
	invalidIPCache = cache.NewLRUExpireCache(100)
}

// VerifLocalInfo is a white-box snapshot of one Local for harnesses outside the package.
type VerifLocalInfo struct {
	ENIID    string
	Status   string
	Pending  int
	Deleting int
}

func VerifInspect(l *Local) VerifLocalInfo {
	l.cond.L.Lock()
	defer l.cond.L.Unlock()
	i := VerifLocalInfo{Status: l.status.String(), Pending: l.allocatingV4.Len() + l.allocatingV6.Len(),
		Deleting: len(l.ipv4.Deleting()) + len(l.ipv6.Deleting())}
	if l.eni != nil {
		i.ENIID = l.eni.ID
	}
	return i
}

// VerifWake broadcasts on the Local's condition (used while shutting a case down).
func VerifWake(l *Local) { l.cond.Broadcast() }

// VerifSyncPool runs one pass of the pool balancer (normally driven by a timer).
func VerifSyncPool(ctx context.Context, m *Manager) { m.syncPool(ctx) }
