package eni

import "time"

// VerifSleepDivisor scales the hard-coded batching delay in factoryAllocWorker when the
// verification driver has rewritten `time.Sleep(300 * time.Millisecond)` into
// `time.Sleep(verifScale(...))` (see /verif/bin/check SLEEP_TRANSFORMS). 1 = unchanged.
var VerifSleepDivisor int64 = 1

func verifScale(d time.Duration) time.Duration {
	if VerifSleepDivisor <= 1 {
		return d
	}
	return d / time.Duration(VerifSleepDivisor)
}
