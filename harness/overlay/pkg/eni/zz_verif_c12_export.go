package eni

import (
	"sigs.k8s.io/controller-runtime/pkg/client"

	networkv1beta1 "github.com/AliyunContainerService/terway/pkg/apis/network.alibabacloud.com/v1beta1"
)

// C12NewCRDV2 builds the daemon-side CRD allocator over an arbitrary client (the real
// constructor NewCRDV2 needs a kube config and starts a controller manager). Only the
// fields Allocate/Release touch are set. Export shim for the C12 verification harness.
func C12NewCRDV2(c client.Client, nodeName string) *CRDV2 {
	return &CRDV2{
		client:      c,
		nodeName:    nodeName,
		deletedPods: make(map[string]*networkv1beta1.RuntimePodStatus),
	}
}
