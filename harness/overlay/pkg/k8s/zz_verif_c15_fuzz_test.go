package k8s

import (
	"testing"

	"github.com/AliyunContainerService/terway/types"
	g "github.com/AliyunContainerService/terway/zz_verif/c15gen"
)

// Native coverage-guided fuzz targets (thorough tier), reusing the oracles of the rapid
// tests: a panic (or Fatalf of the oracle) fails the input.

// FuzzVerifC15Bandwidth: parseBandwidth on an arbitrary string plus the scale oracle
// (accepted with/without unit, aliases equal, x1024 per unit step, monotone in n) on
// the well-formed numbers a/1000 and b/1000.
func FuzzVerifC15Bandwidth(f *testing.F) {
	for _, s := range append([]string{"1M", "2M", "10M", "invalid", "1.5G", "100", "0.001", "1KiB", "3 T", "1mb"}, g.FuzzHostile...) {
		f.Add(s, uint32(1000), uint32(1500), uint8(0))
	}
	f.Add("1e400M", uint32(1), uint32(1000000000), uint8(7))
	// fractional numbers with a unit, n < 1, neighbours across a unit boundary
	for _, s := range []string{"0.5K", "0.5M", "0.5G", "0.5T", "1.5M", "1100K", "3.5T", "0.001K", "0.125GiB", "999.999MB", "1023.999K"} {
		f.Add(s, uint32(500), uint32(1500), uint8(3))
	}
	f.Add("1", uint32(499), uint32(1100000), uint8(11))
	f.Fuzz(func(t *testing.T, s string, a, b uint32, forms uint8) {
		defer g.FuzzGuard(t, "FuzzVerifC15Bandwidth", s, a, b, forms)()
		c := g.FuzzSink{T: t}
		vfC15RunBw(c, vfC15BwScenario{Kind: "fuzz", Value: g.Bytes(s)})
		vfC15RunScale(c, vfC15ScaleScenario{MilliA: int64(a%1000000000) + 1, MilliB: int64(b%1000000000) + 1, FormA: int(forms % 6), FormB: int(forms / 6 % 6)})
	})
}

// FuzzVerifC15ConvertPod: every annotation convertPod interprets, owner kind, phase and
// pod IPs, as arbitrary strings.
func FuzzVerifC15ConvertPod(f *testing.F) {
	f.Add("1M", "2M", "true", "guaranteed", "true", "StatefulSet", "Running", "192.168.1.1", false)
	f.Add("invalid", "invalid", "invalid", "invalid", "", "ReplicaSet", "Failed", "fd00::1", true)
	for _, s := range g.FuzzHostile {
		f.Add(s, s, s, s, s, s, s, s, true)
	}
	f.Fuzz(func(t *testing.T, ingress, egress, podENI, prio, reserve, owner, phase, ip string, viaClient bool) {
		defer g.FuzzGuard(t, "FuzzVerifC15ConvertPod", ingress, egress, podENI, prio, reserve, owner, phase, ip, viaClient)()
		s := vfC15PodScenario{Kind: "fuzz", ERDMA: true, ViaClient: viaClient, Stateful: []string{"statefulset"},
			Annos: []vfC15KV{
				{K: g.Bytes(podIngressBandwidth), V: g.Bytes(ingress)}, {K: g.Bytes(podEgressBandwidth), V: g.Bytes(egress)},
				{K: g.Bytes(types.PodENI), V: g.Bytes(podENI)}, {K: g.Bytes(types.NetworkPriority), V: g.Bytes(prio)},
				{K: g.Bytes(types.PodIPReservation), V: g.Bytes(reserve)},
			},
			OwnerKind: []g.Bytes{g.Bytes(owner)}, Phase: g.Bytes(phase), PodIP: g.Bytes(ip), PodIPs: []g.Bytes{g.Bytes(ip)},
		}
		vfC15RunPod(g.FuzzSink{T: t}, s)
	})
}

// FuzzVerifC15PodStore: value bytes of the pod-cache database -> deserialize -> clean /
// GetPod fallback.
func FuzzVerifC15PodStore(f *testing.F) {
	f.Add([]byte(`{"Pod":{"Name":"p0","Namespace":"ns","TcIngress":1048576,"PodNetworkType":"ENIMultiIP","PodIPs":{"IPv4":"10.0.0.2","IPv6":null},"IPStickTime":300000000000,"PodUID":"u"}}`), true)
	f.Add([]byte(`{"Pod":{}}`), false)
	f.Add([]byte(`{"Pod":{"PodIPs":{"IPv4":"x"}}}`), false)
	for _, s := range g.FuzzHostile {
		f.Add([]byte(s), false)
	}
	f.Fuzz(func(t *testing.T, rec []byte, live bool) {
		defer g.FuzzGuard(t, "FuzzVerifC15PodStore", rec, live)()
		vfC15RunStore(g.FuzzSink{T: t}, vfC15StoreScenario{Kind: "fuzz", PodLive: live,
			Records: []vfC15KV{{K: g.Bytes("ns/p0"), V: g.Bytes(rec)}}})
	})
}

// FuzzVerifC15KubeadmConfig: the kubeadm-config documents under the coverage-guided
// fuzzer through setSvcCIDR -> serviceCidrFromAPIServer (oracle of
// TestVerifC15ServiceCIDR; what the documents must yield is unknown for fuzzed bytes, so
// only "value or error, never a panic, never both" is judged).
func FuzzVerifC15KubeadmConfig(f *testing.F) {
	good := "apiVersion: kubeadm.k8s.io/v1beta3\nkind: ClusterConfiguration\nnetworking:\n  dnsDomain: cluster.local\n  podSubnet: 10.0.0.0/8\n  serviceSubnet: 172.21.0.0/20\n"
	f.Add([]byte(good), []byte(good), "", uint8(3))
	f.Add([]byte(good), []byte(""), "fd00::/108", uint8(2))
	for _, s := range append(vfC15KubeadmHostile, g.FuzzHostile...) {
		f.Add([]byte(s), []byte(good), "", uint8(3))
		f.Add([]byte(good), []byte(s), "x", uint8(2))
	}
	f.Fuzz(func(t *testing.T, master, cluster []byte, svc string, keys uint8) {
		defer g.FuzzGuard(t, "FuzzVerifC15KubeadmConfig", master, cluster, svc, keys)()
		s := vfC15SvcScenario{Kind: "fuzz", ServiceCIDR: g.Bytes(svc), CMExists: keys&4 == 0}
		if keys&1 != 0 {
			m := g.Bytes(master)
			s.Master = &m
		}
		if keys&2 != 0 {
			cl := g.Bytes(cluster)
			s.Cluster = &cl
		}
		vfC15RunSvc(g.FuzzSink{T: t}, s)
	})
}
