package k8s

// C15 — ConfigMaps and node metadata the daemon reads at start-up never panic it:
// kube-system/kubeadm-config (ClusterConfiguration / legacy MasterConfiguration) through
// setSvcCIDR -> serviceCidrFromAPIServer, reached when the eni-config's service_cidr
// carries no usable IPv4 CIDR; the node's terway-config label and the dynamic config
// ConfigMap it names (GetNodeDynamicConfigLabel / GetDynamicConfigWithName); the custom
// stateful workload kinds of the eni-config (SetCustomStatefulWorkloadKinds).
//
// NewK8S itself needs a REST config; its three lines that turn service_cidr into the
// IPNetSet handed to setSvcCIDR are mirrored.

import (
	"context"
	"fmt"
	"net"
	"strings"
	"sync"
	"testing"
	"unicode/utf8"

	corev1 "k8s.io/api/core/v1"
	metav1 "k8s.io/apimachinery/pkg/apis/meta/v1"
	"k8s.io/apimachinery/pkg/runtime"
	"k8s.io/client-go/kubernetes/scheme"
	"sigs.k8s.io/controller-runtime/pkg/client/fake"

	"github.com/AliyunContainerService/terway/types"
	g "github.com/AliyunContainerService/terway/zz_verif/c15gen"
	"github.com/AliyunContainerService/terway/zz_verif/vt"
	"pgregory.net/rapid"
)

type vfC15SvcScenario struct {
	Kind        string   `json:"kind"`
	ServiceCIDR g.Bytes  `json:"service_cidr"` // eni_conf service_cidr
	CMExists    bool     `json:"kubeadm_config_exists"`
	Master      *g.Bytes `json:"master_configuration"`  // nil: key absent
	Cluster     *g.Bytes `json:"cluster_configuration"` // nil: key absent
	// for documents built from the grammar: what the fallback has to answer
	// ("value:<cidr>", "error"); empty when unknown (mutated / raw documents)
	Expect    string    `json:"expect"`
	NodeLabel *g.Bytes  `json:"node_label"` // terway-config label of the node
	DynConfig *g.Bytes  `json:"dyn_config"` // eni_conf of the ConfigMap named "dyn" (nil: no such key)
	Kinds     []g.Bytes `json:"stateful_kinds"`
}

// vfC15KubeadmDoc builds one kubeadm configuration document from a small grammar and
// says what the service-CIDR fallback has to make of it.
func vfC15KubeadmDoc(t *rapid.T, kind string) (doc string, expect string) {
	var sb strings.Builder
	sb.WriteString("apiVersion: kubeadm.k8s.io/v1beta3\nkind: " + kind + "\nkubernetesVersion: v1.28.3\n")
	expect = "error"
	switch rapid.IntRange(0, 14).Draw(t, "networking") {
	case 0: // absent
	case 1:
		sb.WriteString("networking: flannel\n")
	case 2:
		sb.WriteString("networking:\n- serviceSubnet: 172.21.0.0/20\n")
	case 3:
		sb.WriteString("networking: null\n")
	case 4:
		sb.WriteString("networking: {}\n")
	default:
		sb.WriteString("networking:\n  dnsDomain: cluster.local\n  podSubnet: 10.0.0.0/8\n")
		cidr := g.CIDRv4(t)
		switch rapid.IntRange(0, 17).Draw(t, "subnet") {
		case 0: // absent
		case 1:
			sb.WriteString("  serviceSubnet: not-a-cidr\n")
		case 2:
			sb.WriteString("  serviceSubnet:\n  - " + cidr + "\n")
		case 3:
			sb.WriteString("  serviceSubnet: null\n")
		case 4:
			sb.WriteString("  serviceSubnet: 42\n")
		case 5:
			sb.WriteString("  serviceSubnet:\n    ipv4: " + cidr + "\n")
		case 6:
			sb.WriteString("  serviceSubnet: [" + cidr + ", \"fd00::/108\"]\n")
		case 7:
			sb.WriteString("  serviceSubnet: " + cidr + ",fd00::/108\n") // kubeadm's dual-stack spelling: not one CIDR
		case 8:
			sb.WriteString("  serviceSubnet: true\n")
		case 9:
			sb.WriteString("  serviceSubnet: 1.5\n")
		case 10:
			sb.WriteString("  serviceSubnet: \"" + cidr + "\"\n")
			expect = "value:" + cidr
		case 11:
			v6 := g.CIDRv6(t)
			sb.WriteString("  serviceSubnet: \"" + v6 + "\"\n")
			expect = "value:" + v6
		default:
			sb.WriteString("  serviceSubnet: " + cidr + "\n")
			expect = "value:" + cidr
		}
	}
	sb.WriteString("controlPlaneEndpoint: 10.0.0.1:6443\n")
	return sb.String(), expect
}

var vfC15KubeadmHostile = []string{
	"networking:\n  serviceSubnet:\n  - 172.21.0.0/20\n", "networking:\n  serviceSubnet: null\n", "networking:\n  serviceSubnet: 7\n",
	"networking:\n  serviceSubnet: {a: b}\n", "networking:\n  serviceSubnet: ~\n", "networking: [serviceSubnet]\n", "networking: 1\n",
	"networking:\n  ? [a]\n  : b\n", "? {networking: 1}\n: x\n", "networking: &a {serviceSubnet: *a}\n", "networking:\n  <<: {serviceSubnet: 172.21.0.0/20}\n",
	"{\"networking\":{\"serviceSubnet\":[\"172.21.0.0/20\"]}}", "- networking\n", "networking:\n  serviceSubnet: !!binary AAAA\n", "\t", "%", "--- \n...\n", "a: [", "",
}

func vfC15GenSvc(t *rapid.T) vfC15SvcScenario {
	s := vfC15SvcScenario{Kind: g.Kind(t)}
	s.ServiceCIDR = g.Bytes(rapid.SampledFrom([]string{"", "", "fd00::/108", "x", ",", " 172.16.0.0/16", "172.16.0.0/33",
		"172.16.0.0/16", "172.16.0.0/16,fd00::/108", "fd00::/108,172.16.0.0/16"}).Draw(t, "svc"))
	if s.Kind == g.KindRaw && rapid.Bool().Draw(t, "rawsvc") {
		s.ServiceCIDR = g.Raw(t, g.IPAlphabet+",", nil)
	}
	s.CMExists = rapid.IntRange(0, 7).Draw(t, "cm") > 0
	which := rapid.IntRange(0, 3).Draw(t, "keys") // 0 cluster only, 1 master only, 2 both, 3 neither
	docFor := func(kind string) (*g.Bytes, string) {
		valid, expect := vfC15KubeadmDoc(t, kind)
		var b g.Bytes
		switch s.Kind {
		case g.KindValid:
			b = g.Bytes(valid)
		case g.KindMutated:
			b, expect = g.MutateText(t, valid), ""
		default:
			b, expect = g.Raw(t, "abcdefghijklmnoprstuvw:-[]{}&*!<>?|,#\"' \n\n0123456789./", vfC15KubeadmHostile), ""
		}
		return &b, expect
	}
	var em, ec string
	if which == 1 || which == 2 {
		s.Master, em = docFor("MasterConfiguration")
	}
	if which == 0 || which == 2 {
		s.Cluster, ec = docFor("ClusterConfiguration")
	}
	switch {
	case !s.CMExists, which == 3:
		s.Expect = "error"
	case s.Master != nil: // the legacy key wins whenever it exists
		s.Expect = em
	default:
		s.Expect = ec
	}
	if rapid.Bool().Draw(t, "haslabel") {
		v := g.TextField(t, s.Kind, func(t *rapid.T) string {
			return rapid.SampledFrom([]string{"dyn", "dyn", "missing", ""}).Draw(t, "label")
		}, "", nil)
		s.NodeLabel = &v
	}
	if rapid.Bool().Draw(t, "hasdyn") {
		v := g.JSONField(t, s.Kind, g.ENIConf, g.ENIConfHostile)
		s.DynConfig = &v
	}
	for i, n := 0, rapid.IntRange(0, 3).Draw(t, "nkinds"); i < n; i++ {
		s.Kinds = append(s.Kinds, g.TextField(t, s.Kind, func(t *rapid.T) string {
			return rapid.SampledFrom([]string{"CloneSet", " statefulset ", "", "İ"}).Draw(t, "kind")
		}, "", nil))
	}
	return s
}

func vfC15RunSvc(c g.Sink, s vfC15SvcScenario) {
	c.Label("kind:" + s.Kind)
	node := &corev1.Node{ObjectMeta: metav1.ObjectMeta{Name: "node-1"}}
	if s.NodeLabel != nil {
		node.Labels = map[string]string{labelDynamicConfig: string(*s.NodeLabel)}
	}
	objs := []runtime.Object{node}
	if s.CMExists {
		cm := &corev1.ConfigMap{ObjectMeta: metav1.ObjectMeta{Name: k8sKubeadmConfigmap, Namespace: k8sSystemNamespace}, Data: map[string]string{"ClusterStatus": "apiEndpoints: {}\n"}}
		if s.Master != nil {
			cm.Data[k8sKubeadmConfigmapNetworking] = string(*s.Master)
		}
		if s.Cluster != nil {
			cm.Data[k8sKubeadmConfigmapClusterconfiguration] = string(*s.Cluster)
		}
		objs = append(objs, cm)
	}
	dyn := &corev1.ConfigMap{ObjectMeta: metav1.ObjectMeta{Name: "dyn", Namespace: "kube-system"}, Data: map[string]string{"other": "x"}}
	if s.DynConfig != nil {
		dyn.Data["eni_conf"] = string(*s.DynConfig)
	}
	objs = append(objs, dyn)
	k := &k8s{client: fake.NewClientBuilder().WithScheme(scheme.Scheme).WithRuntimeObjects(objs...).Build(), node: node, nodeName: "node-1",
		daemonNamespace: "kube-system", Locker: &sync.RWMutex{}}

	// NewK8S: service_cidr of the eni-config -> IPNetSet -> setSvcCIDR
	svcCIDR := &types.IPNetSet{}
	for _, cidr := range strings.Split(string(s.ServiceCIDR), ",") {
		svcCIDR.SetIPNet(cidr)
	}
	fromConfig := svcCIDR.IPv4
	err := k.setSvcCIDR(svcCIDR)
	got := k.GetServiceCIDR()
	switch {
	case fromConfig != nil:
		c.Label("svc:from-eni-config")
		if err != nil || got == nil || got.IPv4 != fromConfig {
			c.Fatalf("service_cidr %q carries an IPv4 CIDR but setSvcCIDR answered %v, %v", string(s.ServiceCIDR), got, err)
		}
	case err != nil:
		c.Label("svc:fallback-error")
		c.NonTrivial()
		if got != nil {
			c.Fatalf("setSvcCIDR failed (%v) but published a service CIDR %v", err, got)
		}
		if strings.HasPrefix(s.Expect, "value:") {
			c.Fatalf("kubeadm-config holds serviceSubnet %s but the fallback failed: %v", strings.TrimPrefix(s.Expect, "value:"), err)
		}
	default:
		c.Label("svc:fallback-value")
		c.NonTrivial()
		if got == nil || got.IPv4 == nil {
			c.Fatalf("setSvcCIDR succeeded without a service CIDR")
		}
		_ = got.String()
		_ = got.ToRPC()
		if s.Expect == "error" {
			c.Fatalf("the fallback answered %s although kubeadm-config holds no usable serviceSubnet", got.IPv4)
		}
		if strings.HasPrefix(s.Expect, "value:") {
			_, want, perr := net.ParseCIDR(strings.TrimPrefix(s.Expect, "value:"))
			if perr != nil || want.String() != got.IPv4.String() {
				c.Fatalf("the fallback answered %s, kubeadm-config says %s", got.IPv4, strings.TrimPrefix(s.Expect, "value:"))
			}
		}
	}

	// node label -> dynamic config ConfigMap
	label := k.GetNodeDynamicConfigLabel()
	if label != "" {
		content, err := k.GetDynamicConfigWithName(context.Background(), label)
		switch {
		case err != nil:
			c.Label("dyn:error")
		default:
			c.Label("dyn:content")
			// (an API server only stores valid UTF-8; the fake one replaces other bytes)
			if label != "dyn" || s.DynConfig == nil || (utf8.Valid(*s.DynConfig) && content != string(*s.DynConfig)) {
				c.Fatalf("dynamic config %q answered content that is not the ConfigMap's eni_conf", label)
			}
		}
	}
	kinds := make([]string, 0, len(s.Kinds))
	for _, kd := range s.Kinds {
		kinds = append(kinds, string(kd))
	}
	if err := k.SetCustomStatefulWorkloadKinds(kinds); err != nil {
		c.Label("kinds:error")
	}
	_ = k.GetTrunkID()
	_ = fmt.Sprint(k.Node().Name, k.NodeName())
}

func TestVerifC15ServiceCIDR(t *testing.T) { vt.Run(t, vfC15GenSvc, g.NoPanic(g.Adapt(vfC15RunSvc))) }
