package k8s

// C15 — user-controlled input can be rejected but can never crash a component.
// Entry points of this package: parseBandwidth, convertPod (through k8s.GetPod /
// GetLocalPods over a fake API server), the pod-cache deserialiser and its consumers
// (k8s.clean, k8s.GetPod fallback).
//
// The only failure is a panic (vt.Run turns a panic inside run into a violation),
// except for TestVerifC15BandwidthScale which checks the second sentence of the
// statement against its own arithmetic.

import (
	"context"
	"encoding/json"
	"fmt"
	"math/big"
	"os"
	"regexp"
	"strconv"
	"strings"
	"sync"
	"testing"
	"time"
	"unicode"

	"github.com/boltdb/bolt"
	corev1 "k8s.io/api/core/v1"
	"k8s.io/apimachinery/pkg/api/resource"
	metav1 "k8s.io/apimachinery/pkg/apis/meta/v1"
	k8stypes "k8s.io/apimachinery/pkg/types"
	"k8s.io/apimachinery/pkg/util/sets"
	"k8s.io/client-go/kubernetes/scheme"
	"sigs.k8s.io/controller-runtime/pkg/client/fake"

	"github.com/AliyunContainerService/terway/deviceplugin"
	"github.com/AliyunContainerService/terway/pkg/storage"
	"github.com/AliyunContainerService/terway/types"
	"github.com/AliyunContainerService/terway/types/daemon"
	g "github.com/AliyunContainerService/terway/zz_verif/c15gen"
	"github.com/AliyunContainerService/terway/zz_verif/vt"
	"pgregory.net/rapid"
)

// ---------------------------------------------------------------------------------
// bandwidth

const vfC15NoUnit = "C15-bandwidth-nounit"

// vfC15NoUnitClass: the input class of candidate defect F-2 — a non-empty value that,
// trimmed, contains no letter at all (unit-less number, blank, punctuation …).
func vfC15NoUnitClass(s string) bool {
	if len(s) == 0 {
		return false
	}
	return strings.IndexFunc(strings.ToUpper(strings.TrimSpace(s)), unicode.IsLetter) < 0
}

var vfC15Units = [][]string{
	{"", "B"},
	{"K", "KB", "KiB"},
	{"M", "MB", "MiB"},
	{"G", "GB", "GiB"},
	{"T", "TB", "TiB"},
}

// vfC15Milli renders m/1000 with at most three decimals, without exponent.
func vfC15Milli(m int64, form int) string {
	whole, frac := m/1000, m%1000
	switch {
	case frac == 0 && form%2 == 0:
		return strconv.FormatInt(whole, 10)
	case frac == 0:
		return fmt.Sprintf("%d.%0*d", whole, 1+form%3, 0)
	}
	s := fmt.Sprintf("%d.%03d", whole, frac)
	if form%2 == 0 {
		s = strings.TrimRight(s, "0")
	}
	return s
}

func vfC15ValidBandwidth(t *rapid.T) string {
	m := rapid.OneOf(rapid.Int64Range(1, 2000), rapid.Int64Range(1, 1000000), rapid.Int64Range(1, 1000000000)).Draw(t, "milli")
	cls := vfC15Units[rapid.IntRange(0, len(vfC15Units)-1).Draw(t, "unit")]
	return vfC15Milli(m, rapid.IntRange(0, 5).Draw(t, "form")) + rapid.SampledFrom(cls).Draw(t, "alias")
}

const vfC15BwAlphabet = "0123456789.-+eE KMGTBkmgtbi \tİſK٣"

var vfC15BwHostile = []string{"1", " ", "  ", "10", "1.5", "100 ", " 1", ".", "-", "+", "1e3", "1e400", "-1M", "٣M", "٣",
	"1K", "1k", "1Ki", "1KIB", "1kib", "1 M", "1M ", "1MM", "M", "MB", "0M", "-0M", "NaNM", "InfM", "infM", "+InfK",
	"0x10M", "1_0M", "1e400M", "1e-400M", "18446744073709551616", "18446744073709551616B", "17179869184G", "1e30T",
	"9999999999999999999999T", "1\x00M", "1 M", "1 M", "1ſ", "1K", "1İ"}

type vfC15BwScenario struct {
	Kind  string  `json:"kind"`
	Value g.Bytes `json:"value"`
}

func vfC15GenBw(t *rapid.T) vfC15BwScenario {
	k := g.Kind(t)
	return vfC15BwScenario{Kind: k, Value: g.TextField(t, k, vfC15ValidBandwidth, vfC15BwAlphabet, vfC15BwHostile)}
}

// vfC15BwDepth classifies how far a value gets, with an independent scan (not the
// parser's own result): 0 empty, 1 non-empty but no numeric prefix, 2 numeric prefix
// parsed (> 0), 3 numeric prefix + known unit.
func vfC15BwDepth(s string) int {
	if len(s) == 0 {
		return 0
	}
	u := strings.ToUpper(strings.TrimSpace(s))
	i := strings.IndexFunc(u, unicode.IsLetter)
	if i < 0 {
		i = len(u)
	}
	f, err := strconv.ParseFloat(u[:i], 64)
	if err != nil || !(f > 0) {
		return 1
	}
	switch u[i:] {
	case "", "B", "K", "KB", "KIB", "M", "MB", "MIB", "G", "GB", "GIB", "T", "TB", "TIB":
		return 3
	}
	return 2
}

func vfC15RunBw(c g.Sink, s vfC15BwScenario) {
	v := string(s.Value)
	c.Label("kind:" + s.Kind)
	d := vfC15BwDepth(v)
	c.Labelf("depth:%d", d)
	if d >= 2 {
		c.NonTrivial()
	}
	if vfC15NoUnitClass(v) {
		c.Label("class:no-letter")
		if vt.Known(vfC15NoUnit) {
			c.Label("known:" + vfC15NoUnit)
			return
		}
	}
	milli, unit, wellFormed := vfC15WellFormed(v)
	n, err := parseBandwidth(v)
	if err != nil {
		c.Label("result:rejected")
		if n != 0 {
			c.Fatalf("parseBandwidth(%q) = %d with error %v", v, n, err)
		}
		if wellFormed {
			c.Fatalf("well-formed bandwidth %q rejected: %v", v, err)
		}
		return
	}
	c.Label("result:accepted")
	if wellFormed {
		c.Label("well-formed")
		want, tol := vfC15Exact(milli, unit)
		if diff := new(big.Int).Sub(new(big.Int).SetUint64(n), want); diff.CmpAbs(tol) > 0 {
			c.Fatalf("parseBandwidth(%q) = %d, want floor(n x 1024^%d) = %s", v, n, unit, want)
		}
	}
}

func TestVerifC15Bandwidth(t *testing.T) { vt.Run(t, vfC15GenBw, g.NoPanic(g.Adapt(vfC15RunBw))) }

// Second sentence of the statement: well-formed values are accepted with or without a
// unit, aliases of a unit agree, one unit step scales by 1024 (up to the integer
// truncation of the result) and the value is monotone in the number.
type vfC15ScaleScenario struct {
	MilliA int64 `json:"milli_a"` // number = milli/1000, in (0, 10^6]
	MilliB int64 `json:"milli_b"`
	FormA  int   `json:"form_a"`
	FormB  int   `json:"form_b"`
}

func vfC15GenScale(t *rapid.T) vfC15ScaleScenario {
	// milli = n*1000. Classes: n < 1; small n with 1, 2 or 3 decimals; integral n; anything
	frac := func(step int64) *rapid.Generator[int64] { // n with exactly-ish 3/2/1 decimals (step 1/10/100)
		return rapid.Map(rapid.Int64Range(1, 4000000/step), func(k int64) int64 { return k * step })
	}
	mg := rapid.OneOf(rapid.Int64Range(1, 999), frac(1), frac(10), frac(100),
		rapid.Map(rapid.Int64Range(1, 1000000), func(k int64) int64 { return k * 1000 }),
		rapid.Int64Range(1, 3000), rapid.Int64Range(1, 1000000), rapid.Int64Range(1, 1000000000))
	return vfC15ScaleScenario{
		MilliA: mg.Draw(t, "a"), MilliB: mg.Draw(t, "b"),
		FormA: rapid.IntRange(0, 5).Draw(t, "fa"), FormB: rapid.IntRange(0, 5).Draw(t, "fb"),
	}
}

// vfC15Exact: floor(milli/1000 * 1024^k) in exact integer arithmetic, and the tolerance the
// parser's float64 arithmetic is allowed. The parser may round n to the nearest double
// (relative error 2^-53) before the exact power-of-two scaling. The exact product is an
// integer or at least 1/125 away from one, so below 2^46 rounding cannot move the floor
// (tolerance 0); above, the result may be off by value*2^-52.
func vfC15Exact(milli int64, k int) (want, tol *big.Int) {
	v := new(big.Int).Lsh(big.NewInt(milli), uint(10*k))
	want = v.Div(v, big.NewInt(1000))
	tol = new(big.Int)
	if want.BitLen() > 46 {
		tol.Rsh(want, 52).Add(tol, big.NewInt(1))
	}
	return want, tol
}

var vfC15WellFormedRE = regexp.MustCompile(`^([0-9]{1,7})(?:\.([0-9]{1,3}))?(|B|K|KB|KiB|M|MB|MiB|G|GB|GiB|T|TB|TiB)$`)

// vfC15WellFormed recognises the well-formed values of the statement (n in (0, 10^6] with
// at most three decimals, canonical unit spelling) in an arbitrary string.
func vfC15WellFormed(s string) (milli int64, unit int, ok bool) {
	m := vfC15WellFormedRE.FindStringSubmatch(s)
	if m == nil {
		return 0, 0, false
	}
	whole, _ := strconv.ParseInt(m[1], 10, 64)
	fr := (m[2] + "000")[:3]
	f, _ := strconv.ParseInt(fr, 10, 64)
	milli = whole*1000 + f
	if milli <= 0 || milli > 1000000000 {
		return 0, 0, false
	}
	for i, cls := range vfC15Units {
		for _, u := range cls {
			if u == m[3] {
				return milli, i, true
			}
		}
	}
	return 0, 0, false
}

func vfC15RunScale(c g.Sink, s vfC15ScaleScenario) {
	c.NonTrivial()
	if s.MilliA%1000 != 0 {
		c.Label("fractional")
	}
	if s.MilliA < 1000 {
		c.Label("below-one")
	}
	parse := func(num, unit string) (uint64, bool) {
		in := num + unit
		if unit == "" && vt.Known(vfC15NoUnit) {
			c.Label("known:" + vfC15NoUnit)
			return 0, false
		}
		v, err := parseBandwidth(in)
		if err != nil {
			c.Fatalf("well-formed bandwidth %q rejected: %v", in, err)
		}
		return v, true
	}
	values := func(milli int64, form int) []uint64 {
		num := vfC15Milli(milli, form)
		out := make([]uint64, len(vfC15Units))
		for i, cls := range vfC15Units {
			have := false
			for _, u := range cls {
				v, ok := parse(num, u)
				if !ok {
					continue
				}
				if have && v != out[i] {
					c.Fatalf("aliases disagree: %s%s = %d, but %s%s = %d", num, u, v, num, cls[len(cls)-1], out[i])
				}
				out[i], have = v, true
			}
		}
		for i := 0; i+1 < len(out); i++ {
			lo, hi := out[i]*1024, out[i]*1024+1023
			if out[i+1] < lo || out[i+1] > hi {
				c.Fatalf("%s: unit step %s -> %s does not scale by 1024: %d -> %d", num, vfC15Units[i][len(vfC15Units[i])-1], vfC15Units[i+1][0], out[i], out[i+1])
			}
			if out[i] > 0 && out[i+1] <= out[i] {
				c.Fatalf("%s: value not increasing with the unit: %d -> %d", num, out[i], out[i+1])
			}
		}
		return out
	}
	va := values(s.MilliA, s.FormA)
	vb := values(s.MilliB, s.FormB)
	// absolute value: value(n, unit k) = floor(n * 1024^k), the truncation applying to the
	// RESULT. (The step check above compares with the already truncated lower unit and is
	// satisfied by an implementation that truncates n before scaling.)
	for _, x := range []struct {
		milli int64
		form  int
		got   []uint64
	}{{s.MilliA, s.FormA, va}, {s.MilliB, s.FormB, vb}} {
		for k, got := range x.got {
			want, tol := vfC15Exact(x.milli, k)
			if diff := new(big.Int).Sub(new(big.Int).SetUint64(got), want); diff.CmpAbs(tol) > 0 {
				c.Fatalf("%s%s = %d, want floor(%s x 1024^%d) = %s", vfC15Milli(x.milli, x.form), vfC15Units[k][0], got, vfC15Milli(x.milli, x.form), k, want)
			}
			if got == 0 && want.Sign() > 0 && tol.Sign() == 0 {
				c.Fatalf("%s%s = 0: a bandwidth of at least one byte became \"no limit\"", vfC15Milli(x.milli, x.form), vfC15Units[k][0])
			}
		}
	}
	// ordering across units: a larger amount never parses to a smaller value
	for i := range va {
		for j := range vb {
			ea, ta := vfC15Exact(s.MilliA, i)
			eb, tb := vfC15Exact(s.MilliB, j)
			if ta.Sign() != 0 || tb.Sign() != 0 {
				continue
			}
			if (ea.Cmp(eb) <= 0 && va[i] > vb[j]) || (ea.Cmp(eb) >= 0 && va[i] < vb[j]) {
				c.Fatalf("order lost: %s%s -> %d but %s%s -> %d", vfC15Milli(s.MilliA, s.FormA), vfC15Units[i][0], va[i],
					vfC15Milli(s.MilliB, s.FormB), vfC15Units[j][0], vb[j])
			}
		}
	}
	for i := range va {
		switch {
		case s.MilliA <= s.MilliB && va[i] > vb[i], s.MilliA >= s.MilliB && va[i] < vb[i]:
			c.Fatalf("not monotone in n for unit %q: %s -> %d, %s -> %d", vfC15Units[i][len(vfC15Units[i])-1],
				vfC15Milli(s.MilliA, s.FormA), va[i], vfC15Milli(s.MilliB, s.FormB), vb[i])
		}
	}
	// the float the number denotes, truncated, for the plain byte unit
	if want := uint64(float64(s.MilliA) / 1000); va[0] != want && va[0]+1 != want && va[0] != want+1 {
		c.Fatalf("%sB = %d, want %d", vfC15Milli(s.MilliA, s.FormA), va[0], want)
	}
}

func TestVerifC15BandwidthScale(t *testing.T) {
	vt.Run(t, vfC15GenScale, g.NoPanic(g.Adapt(vfC15RunScale)))
}

// Deterministic witness of F-2, printed only while the finding is listed as open.
func TestVerifC15KnownWitnessBandwidthNoUnit(t *testing.T) {
	if !vt.Known(vfC15NoUnit) {
		t.Skip("not listed as an open finding")
	}
	failed := false
	func() {
		defer func() {
			if recover() != nil {
				failed = true
			}
		}()
		if v, err := parseBandwidth("10"); err != nil || v != 10 {
			failed = true
		}
	}()
	if failed {
		vt.KnownFindingLine("C15", "parseBandwidth panics on a value without a unit (e.g. kubernetes.io/ingress-bandwidth: \"10\" or \" \"): strings.IndexFunc returns -1 and s[:i] slices out of range; every GetPod/GetLocalPods for that pod crashes the daemon")
	}
}

// ---------------------------------------------------------------------------------
// convertPod through GetPod / GetLocalPods

type vfC15KV struct {
	K g.Bytes `json:"k"`
	V g.Bytes `json:"v"`
}

type vfC15PodScenario struct {
	Kind      string     `json:"kind"`
	Mode      int        `json:"mode"` // 0 ENIMultiIP, 1 ENIOnly
	ERDMA     bool       `json:"erdma"`
	Annos     []vfC15KV  `json:"annos"`
	Labels    []vfC15KV  `json:"labels"`
	OwnerKind []g.Bytes  `json:"owner_kinds"`
	Phase     g.Bytes    `json:"phase"`
	PodIP     g.Bytes    `json:"pod_ip"`
	PodIPs    []g.Bytes  `json:"pod_ips"`
	Limits    []vfC15Res `json:"limits"`
	Stateful  []string   `json:"stateful_kinds"`
	ViaClient bool       `json:"via_client"`
}

type vfC15Res struct {
	Name  string `json:"name"`
	Milli int64  `json:"milli"`
}

var vfC15AnnoKeys = []string{podIngressBandwidth, podEgressBandwidth, types.PodENI, types.NetworkPriority,
	types.PodIPReservation, types.PodNetworks, types.PodIPs, "cpuSet", "k8s.aliyun.com/whatever"}

func vfC15ValidAnno(t *rapid.T, key string) string {
	switch key {
	case podIngressBandwidth, podEgressBandwidth:
		return vfC15ValidBandwidth(t)
	case types.PodENI, types.PodIPReservation:
		return rapid.SampledFrom([]string{"true", "false", "1", "0", "T", "F", "True", "FALSE"}).Draw(t, "bool")
	case types.NetworkPriority:
		return rapid.SampledFrom([]string{string(types.NetworkPrioBestEffort), string(types.NetworkPrioBurstable), string(types.NetworkPrioGuaranteed)}).Draw(t, "prio")
	case types.PodNetworks:
		return `{"podNetworks":[{"interface":"eth0","vSwitchOptions":["vsw-1"],"securityGroupIDs":["sg-1"]}]}`
	case types.PodIPs:
		return g.IPv4(t)
	case "cpuSet":
		return `{"c":{"0":{}}}`
	}
	return g.Name(t)
}

func vfC15GenPod(t *rapid.T) vfC15PodScenario {
	s := vfC15PodScenario{Kind: g.Kind(t)}
	s.Mode = rapid.IntRange(0, 1).Draw(t, "mode")
	s.ERDMA = rapid.Bool().Draw(t, "erdma")
	s.ViaClient = rapid.IntRange(0, 3).Draw(t, "via") == 0
	nAnno := rapid.IntRange(0, 6).Draw(t, "nanno")
	mutIdx := -1
	if s.Kind == g.KindMutated && nAnno > 0 {
		mutIdx = rapid.IntRange(0, nAnno-1).Draw(t, "mutidx")
	}
	for i := 0; i < nAnno; i++ {
		key := rapid.SampledFrom(vfC15AnnoKeys).Draw(t, "key")
		kv := vfC15KV{K: g.Bytes(key)}
		switch {
		case s.Kind == g.KindRaw:
			kv.V = g.Raw(t, vfC15BwAlphabet, vfC15BwHostile)
			if rapid.IntRange(0, 7).Draw(t, "rawkey") == 0 {
				kv.K = g.Raw(t, "", nil)
			}
		case i == mutIdx:
			kv.V = g.MutateText(t, vfC15ValidAnno(t, key))
		default:
			kv.V = g.Bytes(vfC15ValidAnno(t, key))
		}
		s.Annos = append(s.Annos, kv)
	}
	if rapid.Bool().Draw(t, "lbl") {
		s.Labels = append(s.Labels, vfC15KV{K: g.Bytes(rapid.SampledFrom([]string{types.IgnoreByTerway, "app"}).Draw(t, "lk")),
			V: g.Bytes(rapid.SampledFrom([]string{"true", "false", ""}).Draw(t, "lv"))})
	}
	for i, n := 0, rapid.IntRange(0, 3).Draw(t, "nown"); i < n; i++ {
		if s.Kind == g.KindRaw {
			s.OwnerKind = append(s.OwnerKind, g.Raw(t, "", nil))
		} else {
			s.OwnerKind = append(s.OwnerKind, g.Bytes(rapid.SampledFrom([]string{"StatefulSet", "statefulset", "ReplicaSet", "Job", "DaemonSet", "CloneSet", ""}).Draw(t, "ok")))
		}
	}
	if s.Kind == g.KindRaw {
		s.Phase = g.Raw(t, "", nil)
		s.PodIP = g.Raw(t, g.IPAlphabet, nil)
	} else {
		s.Phase = g.Bytes(rapid.SampledFrom([]string{"", "Pending", "Running", "Succeeded", "Failed", "Unknown"}).Draw(t, "phase"))
		s.PodIP = g.Bytes(rapid.SampledFrom([]string{"", g.IPv4(t), g.IPv6(t)}).Draw(t, "podip"))
	}
	for i, n := 0, rapid.IntRange(0, 3).Draw(t, "nips"); i < n; i++ {
		s.PodIPs = append(s.PodIPs, g.TextField(t, s.Kind, func(t *rapid.T) string {
			if rapid.Bool().Draw(t, "v6") {
				return g.IPv6(t)
			}
			return g.IPv4(t)
		}, g.IPAlphabet, nil))
	}
	for i, n := 0, rapid.IntRange(0, 2).Draw(t, "nlim"); i < n; i++ {
		s.Limits = append(s.Limits, vfC15Res{
			Name:  rapid.SampledFrom([]string{deviceplugin.ERDMAResName, "cpu", deviceplugin.ENIResName}).Draw(t, "res"),
			Milli: rapid.Int64Range(-1000, 4000).Draw(t, "q"),
		})
	}
	s.Stateful = rapid.SliceOfN(rapid.SampledFrom([]string{"statefulset", "cloneset", "", "StatefulSet"}), 0, 3).Draw(t, "stateful")
	return s
}

func vfC15BuildPod(s vfC15PodScenario) *corev1.Pod {
	pod := &corev1.Pod{ObjectMeta: metav1.ObjectMeta{Name: "p", Namespace: "ns", UID: k8stypes.UID("uid-1")}}
	pod.Spec.NodeName = "node-1"
	if len(s.Annos) > 0 {
		pod.Annotations = map[string]string{}
		for _, kv := range s.Annos {
			pod.Annotations[string(kv.K)] = string(kv.V)
		}
	}
	if len(s.Labels) > 0 {
		pod.Labels = map[string]string{}
		for _, kv := range s.Labels {
			pod.Labels[string(kv.K)] = string(kv.V)
		}
	}
	for _, k := range s.OwnerKind {
		pod.OwnerReferences = append(pod.OwnerReferences, metav1.OwnerReference{Kind: string(k), Name: "o"})
	}
	pod.Status.Phase = corev1.PodPhase(s.Phase)
	pod.Status.PodIP = string(s.PodIP)
	for _, ip := range s.PodIPs {
		pod.Status.PodIPs = append(pod.Status.PodIPs, corev1.PodIP{IP: string(ip)})
	}
	if len(s.Limits) > 0 {
		ctr := corev1.Container{Name: "c", Resources: corev1.ResourceRequirements{Limits: corev1.ResourceList{}}}
		for _, l := range s.Limits {
			ctr.Resources.Limits[corev1.ResourceName(l.Name)] = *resource.NewMilliQuantity(l.Milli, resource.DecimalSI)
		}
		pod.Spec.Containers = []corev1.Container{ctr}
		pod.Spec.InitContainers = []corev1.Container{ctr}
	}
	return pod
}

func vfC15RunPod(c g.Sink, s vfC15PodScenario) {
	c.Label("kind:" + s.Kind)
	mode := daemon.ModeENIMultiIP
	if s.Mode == 1 {
		mode = daemon.ModeENIOnly
	}
	pod := vfC15BuildPod(s)
	depth := 0
	for _, key := range []string{podIngressBandwidth, podEgressBandwidth} {
		if v, ok := pod.Annotations[key]; ok {
			if d := vfC15BwDepth(v); d > depth {
				depth = d
			}
			if vfC15NoUnitClass(v) {
				c.Label("class:no-letter")
				if vt.Known(vfC15NoUnit) {
					c.Label("known:" + vfC15NoUnit)
					return
				}
			}
		}
	}
	c.Labelf("bw-depth:%d", depth)
	known := 0
	for _, key := range vfC15AnnoKeys {
		if _, ok := pod.Annotations[key]; ok {
			known++
		}
	}
	// non-trivial: at least one annotation convertPod actually interprets is present
	// (so its parser ran), i.e. the input got past the "annotation absent" check.
	for _, key := range []string{podIngressBandwidth, podEgressBandwidth, types.PodENI, types.NetworkPriority, types.PodIPReservation} {
		if _, ok := pod.Annotations[key]; ok {
			c.NonTrivial()
			c.Label("parsed:" + key)
		}
	}
	stateful := sets.New[string](s.Stateful...)
	if !s.ViaClient {
		pi := convertPod(mode, s.ERDMA, stateful, pod)
		if pi == nil {
			c.Fatalf("convertPod returned nil")
		}
		return
	}
	c.Label("via:client")
	cl := fake.NewClientBuilder().WithScheme(scheme.Scheme).WithObjects(pod).Build()
	k := &k8s{client: cl, mode: mode, nodeName: "node-1", storage: storage.NewMemoryStorage(), Locker: &sync.RWMutex{},
		enableErdma: s.ERDMA, statefulWorkloadKindSet: stateful}
	_, _ = k.GetPod(context.Background(), "ns", "p", true)
	_, _ = k.GetLocalPods()
	_, _ = k.PodExist("ns", "p")
	_ = k.clean()
}

func TestVerifC15ConvertPod(t *testing.T) { vt.Run(t, vfC15GenPod, g.NoPanic(g.Adapt(vfC15RunPod))) }

// ---------------------------------------------------------------------------------
// stored pod records (bolt value bytes) -> deserialize -> consumers

type vfC15StoreScenario struct {
	Kind    string    `json:"kind"`
	Records []vfC15KV `json:"records"`
	Disk    bool      `json:"disk"`
	PodLive bool      `json:"pod_live"`
}

func vfC15ValidStoreItem(t *rapid.T) []byte {
	pi := &daemon.PodInfo{
		Name: g.Name(t), Namespace: g.Name(t),
		TcIngress: rapid.Uint64().Draw(t, "in"), TcEgress: rapid.Uint64Range(0, 1<<40).Draw(t, "eg"),
		PodNetworkType: rapid.SampledFrom([]string{daemon.PodNetworkTypeENIMultiIP, daemon.PodNetworkTypeVPCENI, "VPCIP", ""}).Draw(t, "nt"),
		PodIP:          g.IPv4(t),
		SandboxExited:  rapid.Bool().Draw(t, "exited"),
		PodENI:         rapid.Bool().Draw(t, "podeni"),
		PodUID:         g.Name(t),
		NetworkPriority: rapid.SampledFrom([]string{"", string(types.NetworkPrioBestEffort), string(types.NetworkPrioGuaranteed)}).
			Draw(t, "prio"),
		IPStickTime: rapid.SampledFrom([]time.Duration{0, defaultStickTimeForSts}).Draw(t, "stick"),
	}
	pi.PodIPs.SetIP(g.IPv4(t))
	if rapid.Bool().Draw(t, "v6") {
		pi.PodIPs.SetIP(g.IPv6(t))
	}
	b, err := serialize(&storageItem{Pod: pi})
	if err != nil {
		panic(err)
	}
	return b
}

func vfC15GenStore(t *rapid.T) vfC15StoreScenario {
	s := vfC15StoreScenario{Kind: g.Kind(t)}
	s.Disk = rapid.IntRange(0, 15).Draw(t, "disk") == 15
	s.PodLive = rapid.Bool().Draw(t, "live")
	n := rapid.IntRange(1, 3).Draw(t, "n")
	mut := rapid.IntRange(0, n-1).Draw(t, "mut")
	for i := 0; i < n; i++ {
		kind := s.Kind
		if kind == g.KindMutated && i != mut {
			kind = g.KindValid
		}
		s.Records = append(s.Records, vfC15KV{
			K: g.Bytes(fmt.Sprintf("ns/p%d", i)),
			V: g.JSONField(t, kind, vfC15ValidStoreItem, []string{`{}`, `{"Pod":null}`, `{"Pod":{}}`, `{"Pod":[]}`, `{"Pod":{"PodIPs":null}}`, `{"Pod":{"PodIPs":{"IPv4":"x"}}}`, `{"Pod":{"IPStickTime":"1s"}}`}),
		})
	}
	return s
}

const vfC15NilPod = "C15-podstore-nil-pod"

func vfC15RunStore(c g.Sink, s vfC15StoreScenario) {
	c.Label("kind:" + s.Kind)
	// class of the finding: a record that decodes, but to an item without pod info
	for _, r := range s.Records {
		var probe struct{ Pod *json.RawMessage }
		if json.Unmarshal(r.V, &probe) == nil && (probe.Pod == nil || string(*probe.Pod) == "null") {
			c.Label("class:nil-pod")
			if vt.Known(vfC15NilPod) {
				c.Label("known:" + vfC15NilPod)
				return
			}
			break
		}
	}
	pod := &corev1.Pod{ObjectMeta: metav1.ObjectMeta{Name: "p0", Namespace: "ns"}}
	pod.Spec.NodeName = "node-1"
	b := fake.NewClientBuilder().WithScheme(scheme.Scheme)
	if s.PodLive {
		b = b.WithObjects(pod)
	}
	k := &k8s{client: b.Build(), mode: daemon.ModeENIMultiIP, nodeName: "node-1", Locker: &sync.RWMutex{}}

	if s.Disk {
		c.Label("via:disk")
		dir, err := os.MkdirTemp(".", "c15store")
		if err != nil {
			c.Inconclusive("mkdirtemp")
		}
		defer os.RemoveAll(dir)
		path := dir + "/pod.db"
		db, err := bolt.Open(path, 0o600, nil)
		if err != nil {
			c.Inconclusive("bolt open")
		}
		err = db.Update(func(tx *bolt.Tx) error {
			bk, err := tx.CreateBucketIfNotExists([]byte(dbName))
			if err != nil {
				return err
			}
			for _, r := range s.Records {
				if len(r.K) == 0 {
					continue
				}
				if err := bk.Put(r.K, r.V); err != nil {
					return err
				}
			}
			return nil
		})
		_ = db.Close()
		if err != nil {
			c.Inconclusive("bolt write")
		}
		st, err := storage.NewDiskStorage(dbName, path, serialize, deserialize)
		if err != nil {
			c.Label("load:rejected")
			return
		}
		defer func() { _ = storage.VerifC15Close(st) }()
		c.Label("load:accepted")
		c.NonTrivial()
		k.storage = st
	} else {
		mem := storage.NewMemoryStorage()
		accepted := 0
		for _, r := range s.Records {
			obj, err := deserialize(r.V)
			if err != nil {
				// DiskStorage.load returns the error: the daemon refuses to start
				c.Label("load:rejected")
				return
			}
			accepted++
			_ = mem.Put(string(r.K), obj)
		}
		c.Label("load:accepted")
		if accepted > 0 {
			c.NonTrivial()
		}
		k.storage = mem
	}
	// consumers of the loaded records
	for i := range s.Records {
		_, _ = k.GetPod(context.Background(), "ns", fmt.Sprintf("p%d", i), true)
	}
	_ = k.clean()
	_ = k.clean()
}

func TestVerifC15PodStore(t *testing.T) { vt.Run(t, vfC15GenStore, g.NoPanic(g.Adapt(vfC15RunStore))) }

// Deterministic witness, printed only while the finding is listed as open.
func TestVerifC15KnownWitnessPodStoreNilPod(t *testing.T) {
	if !vt.Known(vfC15NilPod) {
		t.Skip("not listed as an open finding")
	}
	panicked := false
	func() {
		defer func() {
			if recover() != nil {
				panicked = true
			}
		}()
		obj, err := deserialize([]byte(`{}`))
		if err != nil {
			return
		}
		mem := storage.NewMemoryStorage()
		_ = mem.Put("ns/p", obj)
		k := &k8s{client: fake.NewClientBuilder().WithScheme(scheme.Scheme).Build(), mode: daemon.ModeENIMultiIP, nodeName: "node-1",
			Locker: &sync.RWMutex{}, storage: mem}
		_ = k.clean()
	}()
	if panicked {
		vt.KnownFindingLine("C15", "a pod-cache record without Pod (e.g. `{}` or `null`) is accepted by deserialize and makes k8s.clean dereference nil in its background goroutine")
	}
}
