package k8s

// C09, the API-side oracle of the daemon's GC: "the API server confirms their absence".
// gcPods reads the node's pod list from the API server's watch cache (resourceVersion=0,
// may lag) and then asks PodExist for every record whose pod is not in that list; that
// second answer decides whether a record is collected, so it has to be authoritative.
// Model-based test of the real k8s object over a fake API server that answers reads
// carrying resourceVersion=0 from a snapshot which only follows the store when the history
// says so: generated histories of pod create / delete / recreate / move to another node /
// cache catch-up / queries. Oracle: PodExist(ns, name) equals "a pod of that name exists in
// the authoritative store and is scheduled on this node" at the time of the call.

import (
	"context"
	"fmt"
	"testing"

	corev1 "k8s.io/api/core/v1"
	apierrors "k8s.io/apimachinery/pkg/api/errors"
	metav1 "k8s.io/apimachinery/pkg/apis/meta/v1"
	"k8s.io/apimachinery/pkg/runtime/schema"
	k8stypes "k8s.io/apimachinery/pkg/types"
	"pgregory.net/rapid"
	"sigs.k8s.io/controller-runtime/pkg/client"
	"sigs.k8s.io/controller-runtime/pkg/client/fake"
	"sigs.k8s.io/controller-runtime/pkg/client/interceptor"

	"github.com/AliyunContainerService/terway/types"
	"github.com/AliyunContainerService/terway/types/daemon"
	"github.com/AliyunContainerService/terway/zz_verif/vt"
)

type c09kOp struct {
	Kind string `json:"kind"` // create | delete | move | catchup | exist | list | label
	Pod  int    `json:"pod,omitempty"`
	// Ignored (create, label): the pod carries the ignore-by-terway label (such pods are left
	// out of the node's pod list; they exist all the same)
	Ignored bool `json:"ignored,omitempty"`
	// Fail (exist): the authoritative lookup of this query fails in the API server
	// ("500" | "504" | "429" | "conn"); reads served from the watch cache still work
	Fail string `json:"fail,omitempty"`
}

type c09kScenario struct {
	Ops []c09kOp `json:"ops"`
}

const c09kPods = 3

func c09kGen(t *rapid.T) c09kScenario {
	var s c09kScenario
	n := rapid.IntRange(2, vt.Scale(14, 30)).Draw(t, "nops")
	for i := 0; i < n; i++ {
		s.Ops = append(s.Ops, c09kOp{
			Kind:    rapid.SampledFrom([]string{"create", "create", "delete", "delete", "move", "catchup", "exist", "exist", "exist", "list", "label"}).Draw(t, "kind"),
			Pod:     rapid.IntRange(0, c09kPods-1).Draw(t, "pod"),
			Ignored: rapid.IntRange(0, 3).Draw(t, "ignored") == 0,
			Fail:    rapid.SampledFrom([]string{"", "", "", "", "500", "504", "429", "conn"}).Draw(t, "fail"),
		})
	}
	return s
}

type c09kPod struct {
	node    string
	uid     int
	ignored bool
}

func c09kRun(c *vt.Ctx, s c09kScenario) {
	const node = "node-1"
	truth := map[string]*c09kPod{}
	cache := map[string]*c09kPod{}
	mkPod := func(name string, p *c09kPod) *corev1.Pod {
		pod := &corev1.Pod{
			ObjectMeta: metav1.ObjectMeta{Namespace: "ns", Name: name, UID: k8stypes.UID("uid-" + name + fmt.Sprint(p.uid))},
			Spec:       corev1.PodSpec{NodeName: p.node},
		}
		if p.ignored {
			pod.Labels = map[string]string{types.IgnoreByTerway: "true"}
		}
		return pod
	}
	stale := func(opts *metav1.GetOptions) bool { return opts != nil && opts.ResourceVersion == "0" }
	failGet := ""
	cl := fake.NewClientBuilder().WithScheme(types.Scheme).WithInterceptorFuncs(interceptor.Funcs{
		Get: func(ctx context.Context, _ client.WithWatch, key client.ObjectKey, obj client.Object, opts ...client.GetOption) error {
			pod, ok := obj.(*corev1.Pod)
			if !ok {
				return apierrors.NewNotFound(schema.GroupResource{Resource: "unknown"}, key.Name)
			}
			o := &client.GetOptions{}
			for _, op := range opts {
				op.ApplyToGet(o)
			}
			view := truth
			if stale(o.Raw) {
				view = cache
			} else if failGet != "" {
				switch failGet {
				case "500":
					return apierrors.NewInternalError(fmt.Errorf("etcdserver: request timed out"))
				case "504":
					return apierrors.NewTimeoutError("the server was unable to return a response in the time allotted", 1)
				case "429":
					return apierrors.NewTooManyRequests("too many requests", 1)
				default:
					return fmt.Errorf("Get \"https://10.0.0.1:6443/api/v1/namespaces/ns/pods/%s\": dial tcp 10.0.0.1:6443: connect: connection refused", key.Name)
				}
			}
			p := view[key.Name]
			if p == nil || key.Namespace != "ns" {
				return apierrors.NewNotFound(schema.GroupResource{Resource: "pods"}, key.Name)
			}
			mkPod(key.Name, p).DeepCopyInto(pod)
			return nil
		},
		List: func(ctx context.Context, _ client.WithWatch, list client.ObjectList, opts ...client.ListOption) error {
			pl, ok := list.(*corev1.PodList)
			if !ok {
				return nil
			}
			o := &client.ListOptions{}
			for _, op := range opts {
				op.ApplyToList(o)
			}
			view := truth
			if o.Raw != nil && o.Raw.ResourceVersion == "0" {
				view = cache
			}
			pl.Items = nil
			for i := 0; i < c09kPods; i++ {
				name := fmt.Sprintf("p%d", i)
				if p := view[name]; p != nil && p.node == node {
					pl.Items = append(pl.Items, *mkPod(name, p))
				}
			}
			return nil
		},
	}).Build()
	k := &k8s{client: cl, nodeName: node, mode: daemon.ModeENIMultiIP}

	laggingAbsent, laggingPresent, askedIgnored, failedLookup := false, false, false, false
	for i, o := range s.Ops {
		name := fmt.Sprintf("p%d", o.Pod)
		switch o.Kind {
		case "create":
			uid := 1
			if old := truth[name]; old != nil {
				uid = old.uid + 1 // recreated under the same name
			}
			truth[name] = &c09kPod{node: node, uid: uid, ignored: o.Ignored}
		case "label":
			// the label is put on / taken off a pod that already runs
			if p := truth[name]; p != nil {
				truth[name] = &c09kPod{node: p.node, uid: p.uid, ignored: o.Ignored}
			}
		case "delete":
			delete(truth, name)
		case "move":
			if p := truth[name]; p != nil {
				truth[name] = &c09kPod{node: "node-2", uid: p.uid + 1, ignored: p.ignored}
			}
		case "catchup":
			cache = map[string]*c09kPod{}
			for n, p := range truth {
				cp := *p
				cache[n] = &cp
			}
		case "exist":
			want := truth[name] != nil && truth[name].node == node
			cached := cache[name] != nil && cache[name].node == node
			if want != cached {
				if want {
					laggingAbsent = true
				} else {
					laggingPresent = true
				}
			}
			if truth[name] != nil && truth[name].ignored && want {
				askedIgnored = true
			}
			if o.Fail != "" {
				// "existing pods never are": a lookup that failed says nothing about the pod; it
				// must not be reported as a confirmed absence (the collector releases on that)
				failGet = o.Fail
				got, err := k.PodExist("ns", name)
				failGet = ""
				failedLookup = true
				if err == nil {
					c.Fatalf("step %d: the authoritative lookup of ns/%s failed (%s) but PodExist answered (%v, nil): a failed lookup is reported as a confirmed answer (the pod exists on the node: %v)", i, name, o.Fail, got, want)
				}
				continue
			}
			got, err := k.PodExist("ns", name)
			if err != nil {
				c.Fatalf("step %d: PodExist(ns/%s) failed: %v", i, name, err)
			}
			if got != want {
				why := "the GC's final check does not reflect what the API server holds"
				if cached == got {
					why = "the GC's final check was answered from the lagging cache"
				}
				c.Fatalf("step %d: PodExist(ns/%s) = %v, but the API server's authoritative state says %v (watch cache says %v, ignore label %v): %s", i, name, got, want, cached, truth[name] != nil && truth[name].ignored, why)
			}
		case "list":
			if _, err := k.GetLocalPods(); err != nil {
				c.Fatalf("step %d: GetLocalPods failed: %v", i, err)
			}
		}
	}
	if laggingAbsent {
		c.Label("exists-but-cache-says-absent")
		c.NonTrivial()
	}
	if askedIgnored {
		c.Label("exist-query-for-a-pod-with-the-ignore-label")
		c.NonTrivial()
	}
	if failedLookup {
		c.Label("exist-query-whose-lookup-fails")
		c.NonTrivial()
	}
	if laggingPresent {
		c.Label("gone-but-cache-says-present")
		c.NonTrivial()
	}
}

func TestVerifC09PodExist(t *testing.T) { vt.Run(t, c09kGen, c09kRun) }
