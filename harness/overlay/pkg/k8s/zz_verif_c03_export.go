package k8s

import (
	"sync"

	corev1 "k8s.io/api/core/v1"
	"sigs.k8s.io/controller-runtime/pkg/client"

	"github.com/AliyunContainerService/terway/pkg/storage"
	"github.com/AliyunContainerService/terway/types"
)

// Export shim for the C03 closed-loop harness: the daemon's real Kubernetes accessor
// (GetPod with its local pod cache, PodExist, GetLocalPods, convertPod) over a client
// the harness supplies. NewK8S needs a kube config, NODE_NAME, a bolt file and starts
// an event broadcaster. No logic here.
func C03New(c client.Client, st storage.Storage, mode, nodeName string, node *corev1.Node, svcCIDR *types.IPNetSet) Kubernetes {
	return &k8s{
		client:   c,
		mode:     mode,
		node:     node,
		nodeName: nodeName,
		storage:  st,
		svcCIDR:  svcCIDR,
		Locker:   &sync.RWMutex{},
	}
}
