package vswitch

import (
	"context"
	"fmt"
	"runtime"
	"sync"
	"sync/atomic"
	"testing"
	"time"

	"github.com/aliyun/alibaba-cloud-sdk-go/services/vpc"
	"pgregory.net/rapid"

	"github.com/AliyunContainerService/terway/zz_verif/vt"
)

// Harness-owned schedules: the fake DescribeVSwitchByID is a gate. A generated script
// starts selections (each with its own cancellable context, optionally followed by
// Block of the id it was given, as a caller does after IpNotEnough), cancels the
// context of a selection that is still waiting, and releases held describes in a
// chosen order. So "slow lookup in flight, a waiter is cancelled, another selection
// takes the vSwitch and reports it exhausted, the slow lookup finishes last" is
// constructed, not hoped for. The clock is fixed while selections run; afterwards all
// describes are released, every goroutine is joined and sequential probes are checked
// exactly: a vSwitch that was reported exhausted must not be handed out until its
// entry expires, and must be eligible again after it has.

type c17GStep struct {
	Kind   string `json:"k"` // start | cancel | release
	Zone   int    `json:"zone,omitempty"`
	Policy string `json:"policy,omitempty"`
	Block  bool   `json:"block,omitempty"`
	K      int    `json:"n,omitempty"` // cancel: k-th started selection; release: k-th held describe
}

type c17GateScenario struct {
	Seed  int64      `json:"seed"`
	TTL   int        `json:"ttl"`
	VSW   []c17VSW   `json:"vsw"`
	List  []int      `json:"list"`
	Hold  []bool     `json:"hold"` // by arrival order of describe calls (cyclic): held or answered at once
	Steps []c17GStep `json:"steps"`
}

func c17GenGate(t *rapid.T) c17GateScenario {
	s := c17GateScenario{}
	s.Seed = rapid.Int64Range(1, 1<<40).Draw(t, "seed")
	s.TTL = rapid.IntRange(1, 3).Draw(t, "ttl")
	n := rapid.SampledFrom([]int{1, 2, 3, 2}).Draw(t, "nvsw")
	for i := 0; i < n; i++ {
		s.VSW = append(s.VSW, c17VSW{
			Zone: rapid.SampledFrom([]int{0, 0, 0, 1}).Draw(t, "zone"),
			Free: rapid.SampledFrom([]int64{7, 1, 250, 0}).Draw(t, "free"),
			Fail: rapid.IntRange(0, 19).Draw(t, "fail") == 0,
		})
	}
	ln := rapid.SampledFrom([]int{1, 2, 3}).Draw(t, "len")
	for i := 0; i < ln; i++ {
		s.List = append(s.List, rapid.IntRange(0, n-1).Draw(t, "id"))
	}
	s.Hold = []bool{rapid.IntRange(0, 4).Draw(t, "hold0") != 0}
	for i := rapid.IntRange(1, 3).Draw(t, "nhold"); i > 0; i-- {
		s.Hold = append(s.Hold, rapid.Bool().Draw(t, "hold"))
	}
	stepGen := rapid.Custom(func(t *rapid.T) c17GStep {
		switch rapid.IntRange(0, 7).Draw(t, "kind") {
		case 0, 1, 2, 3:
			return c17GStep{Kind: "start",
				Zone:   rapid.SampledFrom([]int{0, 0, 0, 1}).Draw(t, "zone"),
				Policy: rapid.SampledFrom([]string{"ordered", "most", "random", ""}).Draw(t, "policy"),
				Block:  rapid.IntRange(0, 2).Draw(t, "block") != 0}
		case 4, 5:
			return c17GStep{Kind: "cancel", K: rapid.IntRange(0, 5).Draw(t, "n")}
		default:
			return c17GStep{Kind: "release", K: rapid.IntRange(0, 3).Draw(t, "n")}
		}
	})
	s.Steps = rapid.SliceOfN(stepGen, 2, vt.Scale(8, 12)).Draw(t, "steps")
	return s
}

type c17Held struct {
	id       int
	release  chan struct{}
	released bool
}

// c17GateCloud implements client.VPC; a held call waits for its release or for the
// cancellation of the context it was started with (as a real API call would).
type c17GateCloud struct {
	mu       sync.Mutex
	vsw      []c17VSW
	hold     []bool
	open     bool // finale: nothing is held any more
	arrivals int
	held     []*c17Held
	progress *atomic.Int64
}

func (g *c17GateCloud) DescribeVSwitchByID(ctx context.Context, id string) (*vpc.VSwitch, error) {
	if id == "" { // no filter: the first vSwitch of the account, see c17Cloud.DescribeVSwitchByID
		return &vpc.VSwitch{VSwitchId: c17Foreign, ZoneId: c17Zone(0), AvailableIpAddressCount: 4000, CidrBlock: "172.16.0.0/16"}, nil
	}
	i, ok := c17Idx(id)
	g.mu.Lock()
	if !ok || i < 0 || i >= len(g.vsw) {
		g.mu.Unlock()
		return nil, fmt.Errorf("InvalidVSwitchId.NotFound %s", id)
	}
	v := g.vsw[i]
	var h *c17Held
	if !g.open && len(g.hold) > 0 && g.hold[g.arrivals%len(g.hold)] {
		h = &c17Held{id: i, release: make(chan struct{})}
		g.held = append(g.held, h)
	}
	g.arrivals++
	g.mu.Unlock()
	g.progress.Add(1)
	if h != nil {
		select {
		case <-h.release:
		case <-ctx.Done():
			g.progress.Add(1)
			return nil, ctx.Err()
		}
		g.progress.Add(1)
	}
	if v.Fail {
		return nil, fmt.Errorf("Throttling: describe %s", id)
	}
	return &vpc.VSwitch{VSwitchId: id, ZoneId: c17Zone(v.Zone), AvailableIpAddressCount: v.Free,
		CidrBlock: c17CIDR(i), Ipv6CidrBlock: c17CIDR6(i)}, nil
}

// releaseNth releases the k-th (cyclic) describe that is still held.
func (g *c17GateCloud) releaseNth(k int) (int, bool) {
	g.mu.Lock()
	defer g.mu.Unlock()
	var live []*c17Held
	for _, h := range g.held {
		if !h.released {
			live = append(live, h)
		}
	}
	if len(live) == 0 {
		return 0, false
	}
	h := live[k%len(live)]
	h.released = true
	close(h.release)
	return h.id, true
}

func (g *c17GateCloud) openAll() {
	g.mu.Lock()
	defer g.mu.Unlock()
	g.open = true
	for _, h := range g.held {
		if !h.released {
			h.released = true
			close(h.release)
		}
	}
}

func (g *c17GateCloud) heldLive() int {
	g.mu.Lock()
	defer g.mu.Unlock()
	n := 0
	for _, h := range g.held {
		if !h.released {
			n++
		}
	}
	return n
}

type c17GSel struct {
	step       c17GStep
	cancel     context.CancelFunc
	cancelled  bool
	done       atomic.Bool
	start, end int64
	got        *Switch
	gotCopy    Switch
	err        error
	blk        *c17BlockEv
	panicked   string
}

// c17Settle lets started goroutines run until nothing observable moves any more. It
// only shapes which interleaving is explored; no verdict depends on it.
func c17Settle(progress *atomic.Int64) {
	last := progress.Load()
	calm := 0
	for i := 0; i < 400 && calm < 6; i++ {
		runtime.Gosched()
		if i%4 == 3 {
			time.Sleep(20 * time.Microsecond)
		}
		if p := progress.Load(); p != last {
			last, calm = p, 0
		} else {
			calm++
		}
	}
}

func c17RunGate(c *vt.Ctx, s c17GateScenario) {
	if len(s.VSW) == 0 || len(s.List) == 0 {
		return
	}
	c17Seed(s.Seed)
	n := len(s.VSW)
	for _, id := range s.List {
		if id < 0 || id >= n {
			return
		}
	}
	var progress atomic.Int64
	clk := &c17Clock{}
	cloud := &c17GateCloud{vsw: append([]c17VSW(nil), s.VSW...), hold: s.Hold, progress: &progress}
	pool := c17NewPool(clk, s.TTL)
	list := c17MakeList(s.List, 0)
	var (
		stamp atomic.Int64
		wg    sync.WaitGroup
		sels  []*c17GSel
	)
	cancelledWaiter, blockWhileHeld := false, false

	for si, st := range s.Steps {
		switch st.Kind {
		case "start":
			ctx, cancel := context.WithCancel(context.Background())
			sel := &c17GSel{step: st, cancel: cancel}
			sels = append(sels, sel)
			wg.Add(1)
			go func() {
				defer wg.Done()
				defer sel.done.Store(true)
				defer progress.Add(1)
				defer func() {
					// a selection that panics is the violation ("safe under concurrent use"), not a
					// dead test process: keep it for the verdict after the join
					if r := recover(); r != nil {
						sel.panicked = fmt.Sprintf("%v", r)
						sel.got, sel.err = nil, fmt.Errorf("panic: %v", r)
					}
				}()
				sel.start = stamp.Add(1)
				progress.Add(1)
				sel.got, sel.err = pool.GetOne(ctx, cloud, c17Zone(st.Zone), list.slice, c17Opts(st.Policy, false, false)...)
				sel.end = stamp.Add(1)
				if sel.got != nil {
					sel.gotCopy = *sel.got
					if gi, ok := c17Idx(sel.got.ID); ok && st.Block {
						b := &c17BlockEv{id: gi}
						b.start = stamp.Add(1)
						pool.Block(sel.got.ID)
						b.end = stamp.Add(1)
						sel.blk = b
					}
				}
			}()
			c.Trace("#%d start selection %d (zone=%s policy=%q block=%v)", si, len(sels)-1, c17Zone(st.Zone), st.Policy, st.Block)
		case "cancel":
			if len(sels) == 0 {
				continue
			}
			k := st.K % len(sels)
			sel := sels[k]
			if !sel.cancelled {
				sel.cancelled = true
				if !sel.done.Load() && cloud.heldLive() > 0 {
					cancelledWaiter = true
				}
				sel.cancel()
				c.Trace("#%d cancel selection %d (finished=%v)", si, k, sel.done.Load())
			}
		case "release":
			if id, ok := cloud.releaseNth(st.K); ok {
				c.Trace("#%d release a held describe of %s", si, c17ID(id))
			}
		}
		c17Settle(&progress)
		if cloud.heldLive() > 0 {
			for _, sel := range sels {
				if sel.done.Load() && sel.blk != nil {
					blockWhileHeld = true
				}
			}
		}
	}

	// finale: release everything, join
	cloud.openAll()
	done := make(chan struct{})
	go func() { wg.Wait(); close(done) }()
	select {
	case <-done:
	case <-time.After(60 * time.Second):
		c.Inconclusive("selections did not finish within 60s after all describes were released")
	}
	for k, sel := range sels {
		sel.cancel()
		if sel.panicked != "" {
			c.Fatalf("selection %d (zone=%s policy=%q) panicked while other selections / describes were in flight: %s", k, c17Zone(sel.step.Zone), sel.step.Policy, sel.panicked)
		}
	}
	if diff := list.changed(); diff != "" {
		c.Fatalf("the shared candidate slice was modified: %s", diff)
	}

	// ---- what every interleaving guarantees about the scripted selections
	blocks := map[int][]c17BlockEv{}
	for _, sel := range sels {
		if sel.blk != nil {
			blocks[sel.blk.id] = append(blocks[sel.blk.id], *sel.blk)
		}
	}
	for k, sel := range sels {
		c.Trace("selection %d [%d,%d] cancelled=%v -> %s err=%v block=%+v", k, sel.start, sel.end, sel.cancelled, c17SwStr(sel.got), sel.err, sel.blk)
		if sel.got == nil {
			continue // with held/cancelled lookups a selection may fail; probes below are exact
		}
		got := sel.gotCopy
		gi, ok := c17Idx(got.ID)
		in := false
		for _, id := range s.List {
			if ok && id == gi {
				in = true
			}
		}
		if !in {
			c.Fatalf("selection %d returned %s which is not in the caller's list", k, got.ID)
		}
		v := s.VSW[gi]
		if v.Fail || v.Zone != sel.step.Zone || got.Zone != c17Zone(v.Zone) || got.AvailableIPCount != v.Free || v.Free <= 0 {
			c.Fatalf("selection %d (zone %s) returned %s; the cloud says zone=%s free=%d fail=%v", k, c17Zone(sel.step.Zone), c17SwStr(&got), c17Zone(v.Zone), v.Free, v.Fail)
		}
		for _, b := range blocks[gi] {
			if b.end < sel.start {
				c.Fatalf("selection %d started after Block(%s) had returned (stamps %d < %d), the clock did not move, yet it was given %s",
					k, got.ID, b.end, sel.start, c17SwStr(&got))
			}
		}
	}

	// ---- exact sequential probes, clock unchanged: blocked ids stay out
	probe := func(phase string, blocked map[int]bool) {
		for zone := 0; zone <= 1; zone++ {
			for _, policy := range []string{"ordered", "most", "random"} {
				views := make([]c17View, len(s.List))
				for k, id := range s.List {
					views[k] = c17CloudView(s.VSW[id])
					if blocked[id] && views[k].ok {
						views[k].free = 0
					}
				}
				got, err := pool.GetOne(context.Background(), cloud, c17Zone(zone), list.slice, c17Opts(policy, false, false)...)
				c.Trace("probe %s zone=%s policy=%s -> %s err=%v", phase, c17Zone(zone), policy, c17SwStr(got), err != nil)
				if verdict, _, _ := c17Expect(zone, policy, false, s.List, views, got, err); verdict != "" {
					c.Fatalf("after the scripted selections (%s; reported exhausted: %v): GetOne(zone=%s, ids=%v, policy=%q): %s",
						phase, c17BlockedIDs(blocked), c17Zone(zone), list.pristine, policy, verdict)
				}
			}
		}
	}
	blocked := map[int]bool{}
	for id := range blocks {
		blocked[id] = true
	}
	probe("clock unchanged", blocked)
	// after expiry everything is looked up again
	clk.advance(s.TTL + 1)
	probe("entries expired", map[int]bool{})

	if len(sels) >= 2 {
		c.Label("selections>=2")
	}
	if len(blocks) > 0 {
		c.Label("block")
	}
	if cancelledWaiter {
		c.Label("cancel-while-describe-held")
	}
	if blockWhileHeld {
		c.Label("block-while-describe-held")
	}
	if cancelledWaiter || blockWhileHeld {
		c.NonTrivial()
	}
}

func c17BlockedIDs(m map[int]bool) []string {
	var out []string
	for id := 0; id < 16; id++ {
		if m[id] {
			out = append(out, c17ID(id))
		}
	}
	return out
}

func TestVerifC17Gate(t *testing.T) { vt.Run(t, c17GenGate, c17RunGate) }
