//go:debug randseednop=0

package vswitch

// C17 — vSwitch selection honours zone, capacity and policy without side effects.
//
// Shared pieces of the two C17 harnesses (sequential histories, concurrent rounds):
// a fake cloud (client.VPC), a fake clock behind the real LRU-expire cache, and the
// reference view of the cache ("value at first describe, 0 after Block, refreshed
// after expiry").
//
// The //go:debug line above only restores math/rand.Seed so that policy `random`
// (which uses the global generator) is reproducible from the scenario seed; no oracle
// depends on which candidate the generator picks.

import (
	"context"
	"fmt"
	"math/rand"
	"runtime"
	"strconv"
	"strings"
	"sync"
	"sync/atomic"
	"time"

	"github.com/aliyun/alibaba-cloud-sdk-go/services/vpc"
	"k8s.io/apimachinery/pkg/util/cache"
	"pgregory.net/rapid"

	"github.com/AliyunContainerService/terway/zz_verif/vt"
)

const (
	c17KnownShuffle   = "C17-random-shuffle"
	c17KnownStaleFill = "C17-stale-fill"
)

// time is counted in half units (500ms). The TTL is an odd number of half units and
// the clock only ever advances by whole units, so "now == expiry" never happens and
// no assertion depends on whether the cache treats the boundary as expired.
const c17Half = 500 * time.Millisecond

func c17TTL(units int) time.Duration { return time.Duration(2*units+1) * c17Half }

type c17Clock struct{ ns atomic.Int64 }

var c17Epoch = time.Unix(1_700_000_000, 0)

func (c *c17Clock) Now() time.Time       { return c17Epoch.Add(time.Duration(c.ns.Load())) }
func (c *c17Clock) advance(units int)    { c.ns.Add(int64(2*units) * int64(c17Half)) }
func (c *c17Clock) now() int64           { return c.ns.Load() }
func c17Seed(seed int64)                 { rand.Seed(seed) } //nolint:staticcheck
func c17ID(i int) string                 { return "vsw-" + strconv.Itoa(i) }
func c17Zone(z int) string               { return "zone-" + strconv.Itoa(z) }
func c17CIDR(i int) string               { return fmt.Sprintf("10.%d.0.0/16", i) }
func c17CIDR6(i int) string              { return fmt.Sprintf("fd00:%x::/64", i) }
func c17Idx(id string) (int, bool) {
	if !strings.HasPrefix(id, "vsw-") {
		return 0, false
	}
	n, err := strconv.Atoi(id[4:])
	return n, err == nil
}

// c17VSW is the cloud's ground truth for one vSwitch (scenario data).
type c17VSW struct {
	Zone int   `json:"zone"`
	Free int64 `json:"free"`
	Fail bool  `json:"fail"` // DescribeVSwitchByID fails for this id
}

type c17Describe struct {
	id int
	ok bool
}

// c17Cloud implements client.VPC.
type c17Cloud struct {
	mu    sync.Mutex
	vsw   []c17VSW
	calls []c17Describe
	yield int
}

// c17Foreign is a vSwitch of the account that no caller ever lists.
const c17Foreign = "vsw-foreign"

// DescribeVSwitchByID answers as the real client does (pkg/aliyun/client/vsw_default.go):
// the id is only the VSwitchId FILTER of DescribeVSwitches and VSwitch[0] of the answer
// is returned. A filter that matches nothing gives ErrNotFound; NO filter (empty id)
// gives the first vSwitch of the account - here a foreign one, in zone-0, with free
// addresses. Nothing in the unchanged code asks with an empty id.
func (c *c17Cloud) DescribeVSwitchByID(_ context.Context, id string) (*vpc.VSwitch, error) {
	if id == "" {
		return &vpc.VSwitch{VSwitchId: c17Foreign, ZoneId: c17Zone(0), AvailableIpAddressCount: 4000,
			CidrBlock: "172.16.0.0/16", Ipv6CidrBlock: "fd00:ffff::/64"}, nil
	}
	i, ok := c17Idx(id)
	c.mu.Lock()
	y := c.yield
	if !ok || i < 0 || i >= len(c.vsw) {
		c.mu.Unlock()
		return nil, fmt.Errorf("InvalidVSwitchId.NotFound %s", id)
	}
	v := c.vsw[i]
	c.calls = append(c.calls, c17Describe{id: i, ok: !v.Fail})
	c.mu.Unlock()
	for ; y > 0; y-- {
		runtime.Gosched()
	}
	if v.Fail {
		return nil, fmt.Errorf("Throttling: describe %s", id)
	}
	return &vpc.VSwitch{
		VSwitchId:               id,
		ZoneId:                  c17Zone(v.Zone),
		AvailableIpAddressCount: v.Free,
		CidrBlock:               c17CIDR(i),
		Ipv6CidrBlock:           c17CIDR6(i),
	}, nil
}

func (c *c17Cloud) ncalls() int {
	c.mu.Lock()
	defer c.mu.Unlock()
	return len(c.calls)
}

func (c *c17Cloud) callsSince(n int) []c17Describe {
	c.mu.Lock()
	defer c.mu.Unlock()
	return append([]c17Describe(nil), c.calls[n:]...)
}

func (c *c17Cloud) get(i int) c17VSW {
	c.mu.Lock()
	defer c.mu.Unlock()
	return c.vsw[i]
}

func (c *c17Cloud) set(i int, f func(*c17VSW)) {
	c.mu.Lock()
	defer c.mu.Unlock()
	f(&c.vsw[i])
}

func c17NewPool(clk *c17Clock, ttlUnits int) *SwitchPool {
	// size far above the id universe: LRU eviction is out of scope (see level_note)
	return &SwitchPool{cache: cache.NewLRUExpireCacheWithClock(128, clk), ttl: c17TTL(ttlUnits)}
}

// ---------------------------------------------------------------- reference view

// c17Entry is the reference model of one cache entry.
type c17Entry struct {
	present bool
	zone    int
	free    int64
	blocked bool
	expire  int64 // clock ns; valid while now < expire (now == expire never happens)
}

func (e c17Entry) valid(now int64) bool { return e.present && now < e.expire }

// c17View is what a lookup of one id yields: either nothing (describe fails) or
// zone + free count.
type c17View struct {
	ok   bool
	zone int
	free int64
}

func c17CloudView(v c17VSW) c17View {
	if v.Fail {
		return c17View{}
	}
	return c17View{ok: true, zone: v.Zone, free: v.Free}
}

func (v c17View) eligible(zone int, inZone bool) bool {
	return v.ok && v.free > 0 && (v.zone == zone) == inZone
}

// ---------------------------------------------------------------- caller slices

// c17List is a caller-owned candidate slice with spare capacity behind it; the spare
// part holds sentinels so that an append into the caller's backing array is noticed.
type c17List struct {
	idx      []int    // scenario indices
	backing  []string // len == cap
	slice    []string // backing[:len(idx)]
	pristine []string // copy of backing
}

func c17MakeList(idx []int, extra int) *c17List {
	l := &c17List{idx: idx}
	l.backing = make([]string, len(idx)+extra)
	for i, k := range idx {
		l.backing[i] = c17ID(k)
	}
	for i := len(idx); i < len(l.backing); i++ {
		l.backing[i] = "sentinel-" + strconv.Itoa(i)
	}
	l.slice = l.backing[:len(idx):len(l.backing)]
	l.pristine = append([]string(nil), l.backing...)
	return l
}

// changed reports the first difference between the caller's backing array and its
// pristine copy ("" if none).
func (l *c17List) changed() string {
	for i := range l.backing {
		if l.backing[i] != l.pristine[i] {
			return fmt.Sprintf("element %d is %q, was %q; slice now %v, was %v", i, l.backing[i], l.pristine[i],
				l.backing[:len(l.idx)], l.pristine[:len(l.idx)])
		}
	}
	return ""
}

func (l *c17List) restore() { copy(l.backing, l.pristine) }

// ---------------------------------------------------------------- generators

var c17FreeGen = rapid.SampledFrom([]int64{7, 1, 0, 250, 2, 0, 1 << 33, 1, 0})

var c17VswZoneGen = rapid.SampledFrom([]int{0, 0, 0, 1, 1, 2})

// requested zone: 3 is a zone without any vSwitch
var c17ReqZoneGen = rapid.SampledFrom([]int{0, 0, 0, 0, 1, 1, 2, 3})

// c17GenList draws a caller list of 0..8 indices in [0, n] (n = unknown to the cloud).
func c17GenList(t *rapid.T, n, minLen int) []int {
	ln := rapid.SampledFrom([]int{3, 2, 4, 1, 5, 8, 6, 0, 2, 3}).Draw(t, "len")
	if ln < minLen {
		ln = minLen
	}
	l := make([]int, ln)
	for i := range l {
		if rapid.IntRange(0, 11).Draw(t, "unk") == 0 {
			l[i] = n
		} else {
			l[i] = rapid.IntRange(0, n-1).Draw(t, "id")
		}
	}
	return l
}

var c17PolicyGen = rapid.SampledFrom([]string{"ordered", "ordered", "most", "most", "random", "random", ""})

func c17GenCloud(t *rapid.T, maxN int) []c17VSW {
	n := rapid.SampledFrom([]int{4, 3, 5, 2, 6, 8, 1, 7, 3, 4}).Draw(t, "nvsw")
	if n > maxN {
		n = maxN
	}
	out := make([]c17VSW, n)
	for i := range out {
		out[i] = c17VSW{
			Zone: c17VswZoneGen.Draw(t, "zone"),
			Free: c17FreeGen.Draw(t, "free"),
			Fail: rapid.IntRange(0, 11).Draw(t, "fail") == 0,
		}
	}
	return out
}

func c17Opts(policy string, ignoreZone, noOpts bool) []SelectOption {
	if noOpts && policy == "" && !ignoreZone {
		return nil
	}
	return []SelectOption{&SelectOptions{IgnoreZone: ignoreZone, VSwitchSelectPolicy: SelectionPolicy(policy)}}
}

// c17Expect evaluates the statement's validity predicate for one sequentially
// executed GetOne. views[i] is the lookup result of candidate i of the caller's list.
// It returns "" if (got, err) is acceptable.
func c17Expect(zone int, policy string, ignoreZone bool, ids []int, views []c17View, got *Switch, err error) (verdict string, pool []int, fallback bool) {
	inZone := true
	for k := range ids {
		if views[k].eligible(zone, true) {
			pool = append(pool, k)
		}
	}
	if len(pool) == 0 && ignoreZone {
		inZone = false
		for k := range ids {
			if views[k].eligible(zone, false) {
				pool = append(pool, k)
			}
		}
	}
	fallback = !inZone && len(pool) > 0
	if len(pool) == 0 {
		if err == nil || got != nil {
			if got != nil {
				inList := false
				gi, ok := c17Idx(got.ID)
				for _, id := range ids {
					inList = inList || (ok && id == gi)
				}
				if !inList {
					return fmt.Sprintf("GetOne returned %s which is not in the caller's candidate list (and no candidate is eligible)", c17SwStr(got)), pool, fallback
				}
			}
			return fmt.Sprintf("no eligible candidate but GetOne returned %s, err=%v", c17SwStr(got), err), pool, fallback
		}
		return "", pool, fallback
	}
	if err != nil || got == nil {
		return fmt.Sprintf("eligible candidates exist (list positions %v) but GetOne failed: %v", pool, err), pool, fallback
	}
	gi, ok := c17Idx(got.ID)
	pos := -1
	for _, k := range pool {
		if ok && ids[k] == gi {
			pos = k
			break
		}
	}
	if pos < 0 {
		inList := false
		for k := range ids {
			if ok && ids[k] == gi {
				inList = true
				v := views[k]
				switch {
				case !v.ok:
					return fmt.Sprintf("returned %s whose describe fails", got.ID), pool, fallback
				case v.free <= 0:
					return fmt.Sprintf("returned %s which has no free address in the cache's view (blocked or exhausted)", got.ID), pool, fallback
				case v.zone != zone && !ignoreZone:
					return fmt.Sprintf("returned %s in %s, requested %s without zone fallback", got.ID, c17Zone(v.zone), c17Zone(zone)), pool, fallback
				case v.zone != zone:
					return fmt.Sprintf("fell back to %s in %s although an in-zone candidate with free addresses exists (positions %v)", got.ID, c17Zone(v.zone), pool), pool, fallback
				}
			}
		}
		if !inList {
			return fmt.Sprintf("returned %s which is not in the caller's list", got.ID), pool, fallback
		}
		return fmt.Sprintf("returned %s which is not eligible", got.ID), pool, fallback
	}
	v := views[pos]
	if got.Zone != c17Zone(v.zone) || got.AvailableIPCount != v.free || got.IPv4CIDR != c17CIDR(gi) || got.IPv6CIDR != c17CIDR6(gi) {
		return fmt.Sprintf("returned record %s does not match the cached view {zone %s free %d}", c17SwStr(got), c17Zone(v.zone), v.free), pool, fallback
	}
	switch policy {
	case "ordered":
		if first := pool[0]; ids[first] != gi {
			return fmt.Sprintf("ordered: returned %s, first eligible candidate is %s (position %d)", got.ID, c17ID(ids[first]), first), pool, fallback
		}
	case "most":
		var mx int64
		for _, k := range pool {
			if views[k].free > mx {
				mx = views[k].free
			}
		}
		if v.free != mx {
			return fmt.Sprintf("most: returned %s with %d free, an eligible candidate has %d", got.ID, v.free, mx), pool, fallback
		}
	}
	return "", pool, fallback
}

func c17SwStr(s *Switch) string {
	if s == nil {
		return "<nil>"
	}
	return fmt.Sprintf("{%s %s free=%d %s %s}", s.ID, s.Zone, s.AvailableIPCount, s.IPv4CIDR, s.IPv6CIDR)
}

func c17Known() bool { return vt.Known(c17KnownShuffle) }

func c17KnownStale() bool { return vt.Known(c17KnownStaleFill) }
