package vswitch

import (
	"context"
	"testing"

	"pgregory.net/rapid"

	"github.com/AliyunContainerService/terway/zz_verif/vt"
)

// Sequential histories of GetOne / Block / advance-clock / cloud changes against the
// reference cache view, with an aliasing check of the caller's slice after every call.

type c17Op struct {
	Kind string `json:"k"` // get | block | adv | free | fail

	// get
	List       int    `json:"list,omitempty"`
	Zone       int    `json:"zone,omitempty"`
	Policy     string `json:"policy,omitempty"`
	IgnoreZone bool   `json:"ignoreZone,omitempty"`
	NoOpts     bool   `json:"noOpts,omitempty"`

	// block: the id returned by the latest successful get (UseLast) or vsw ID
	UseLast bool `json:"useLast,omitempty"`
	ID      int  `json:"id,omitempty"`

	Units int   `json:"units,omitempty"` // adv
	Free  int64 `json:"free,omitempty"`  // free
	Fail  bool  `json:"failNow,omitempty"`
}

type c17Scenario struct {
	Seed  int64    `json:"seed"`
	TTL   int      `json:"ttl"` // ttl = TTL units + half a unit
	VSW   []c17VSW `json:"vsw"`
	Lists [][]int  `json:"lists"` // caller-owned candidate lists (indices into VSW, or >= len(VSW) for ids the cloud does not know)
	Extra []int    `json:"extra"` // spare capacity behind each list
	Ops   []c17Op  `json:"ops"`
}

func c17GenScenario(t *rapid.T) c17Scenario {
	s := c17Scenario{}
	s.Seed = rapid.Int64Range(1, 1<<40).Draw(t, "seed")
	s.TTL = rapid.IntRange(1, 6).Draw(t, "ttl")
	s.VSW = c17GenCloud(t, vt.Scale(6, 8))
	n := len(s.VSW)
	nl := rapid.IntRange(1, 3).Draw(t, "nlists")
	for i := 0; i < nl; i++ {
		// n is "unknown to the cloud"
		s.Lists = append(s.Lists, c17GenList(t, n, 0))
		s.Extra = append(s.Extra, rapid.IntRange(0, 3).Draw(t, "extra"))
	}
	opGen := rapid.Custom(func(t *rapid.T) c17Op {
		switch rapid.IntRange(0, 11).Draw(t, "kind") {
		case 0, 1, 2, 3, 4, 5:
			o := c17Op{Kind: "get"}
			o.List = rapid.IntRange(0, nl-1).Draw(t, "list")
			o.Zone = c17ReqZoneGen.Draw(t, "zone")
			o.Policy = c17PolicyGen.Draw(t, "policy")
			o.IgnoreZone = rapid.IntRange(0, 2).Draw(t, "iz") == 0
			o.NoOpts = rapid.Bool().Draw(t, "noopts")
			return o
		case 6, 7:
			return c17Op{Kind: "block", UseLast: rapid.IntRange(0, 3).Draw(t, "uselast") != 0,
				ID: rapid.IntRange(0, n-1).Draw(t, "id")}
		case 8, 9:
			// around the ttl: ttl-1 .. ttl+1 units most of the time
			u := rapid.OneOf(rapid.IntRange(1, 2), rapid.IntRange(s.TTL-1, s.TTL+1), rapid.IntRange(1, 14)).Draw(t, "units")
			if u < 1 {
				u = 1
			}
			return c17Op{Kind: "adv", Units: u}
		case 10:
			return c17Op{Kind: "free", ID: rapid.IntRange(0, n-1).Draw(t, "id"), Free: c17FreeGen.Draw(t, "free")}
		default:
			return c17Op{Kind: "fail", ID: rapid.IntRange(0, n-1).Draw(t, "id"), Fail: rapid.Bool().Draw(t, "fail")}
		}
	})
	s.Ops = rapid.SliceOfN(opGen, 1, vt.Scale(14, 30)).Draw(t, "ops")
	return s
}

func c17RunScenario(c *vt.Ctx, s c17Scenario) {
	if len(s.VSW) == 0 || len(s.Lists) == 0 {
		return
	}
	c17Seed(s.Seed)
	n := len(s.VSW)
	clk := &c17Clock{}
	cloud := &c17Cloud{vsw: append([]c17VSW(nil), s.VSW...)}
	pool := c17NewPool(clk, s.TTL)
	ttl := int64(c17TTL(s.TTL))
	model := make([]c17Entry, n)
	lists := make([]*c17List, len(s.Lists))
	for i, l := range s.Lists {
		extra := 0
		if i < len(s.Extra) {
			extra = s.Extra[i]
		}
		lists[i] = c17MakeList(l, extra)
	}
	last := -1
	ctx := context.Background()

	for step, op := range s.Ops {
		now := clk.now()
		switch op.Kind {
		case "adv":
			clk.advance(op.Units)
			c.Trace("#%d advance %d units", step, op.Units)
		case "free":
			id := op.ID % n
			cloud.set(id, func(v *c17VSW) { v.Free = op.Free })
			c.Trace("#%d cloud: %s free=%d", step, c17ID(id), op.Free)
		case "fail":
			id := op.ID % n
			cloud.set(id, func(v *c17VSW) { v.Fail = op.Fail })
			c.Trace("#%d cloud: %s describe fails=%v", step, c17ID(id), op.Fail)
		case "block":
			id := op.ID % n
			if op.UseLast && last >= 0 {
				id = last
			}
			before := cloud.ncalls()
			pool.Block(c17ID(id))
			if e := model[id]; e.valid(now) {
				model[id] = c17Entry{present: true, zone: e.zone, free: 0, blocked: true, expire: now + ttl}
				c.Label("block:cached")
				c.Trace("#%d Block(%s) (cached, blocked until +%d units)", step, c17ID(id), s.TTL)
			} else {
				c.Label("block:not-cached")
				c.Trace("#%d Block(%s) (no live entry: no effect)", step, c17ID(id))
			}
			if cloud.ncalls() != before {
				c.Label("block:described")
			}
		case "get":
			l := lists[op.List%len(lists)]
			zone := op.Zone
			before := cloud.ncalls()
			got, err := pool.GetOne(ctx, cloud, c17Zone(zone), l.slice, c17Opts(op.Policy, op.IgnoreZone, op.NoOpts)...)
			described := map[int]bool{}
			for _, d := range cloud.callsSince(before) {
				described[d.id] = true
			}
			// views: a live blocked entry stays blocked; a live entry that was not
			// described again is what the cache holds; anything else is what the cloud
			// answers now (the cloud does not change during a call).
			views := make([]c17View, len(l.idx))
			nBlocked := 0
			for k, id := range l.idx {
				if id >= n {
					continue // unknown to the cloud: describe fails
				}
				e := model[id]
				switch {
				case e.valid(now) && e.blocked:
					views[k] = c17View{ok: true, zone: e.zone, free: 0}
					nBlocked++
				case e.valid(now) && !described[id]:
					views[k] = c17View{ok: true, zone: e.zone, free: e.free}
				default:
					views[k] = c17CloudView(cloud.get(id))
				}
			}
			for id := range described {
				e := model[id]
				if e.valid(now) {
					c.Label("described-while-cached")
					if e.blocked {
						continue
					}
				}
				if v := cloud.get(id); !v.Fail {
					model[id] = c17Entry{present: true, zone: v.Zone, free: v.Free, expire: now + ttl}
				}
			}
			c.Trace("#%d GetOne(zone=%s ids=%v policy=%q ignoreZone=%v) -> %s err=%v  [views %v, described %d]",
				step, c17Zone(zone), l.pristine[:len(l.idx)], op.Policy, op.IgnoreZone, c17SwStr(got), err != nil, views, len(described))

			verdict, elig, fallback := c17Expect(zone, op.Policy, op.IgnoreZone, l.idx, views, got, err)
			if verdict != "" {
				c.Fatalf("step %d: GetOne(zone=%s, ids=%v, policy=%q, ignoreZone=%v): %s", step, c17Zone(zone),
					l.pristine[:len(l.idx)], op.Policy, op.IgnoreZone, verdict)
			}
			// classification
			distinct := map[int]bool{}
			for _, k := range elig {
				distinct[l.idx[k]] = true
			}
			c.Labelf("policy:%s", op.Policy)
			if len(distinct) >= 2 {
				c.NonTrivial()
				c.Label("eligible>=2")
				if op.Policy == "most" {
					fr := map[int64]bool{}
					for _, k := range elig {
						fr[views[k].free] = true
					}
					if len(fr) >= 2 {
						c.Label("most:distinct-free-counts")
					}
				}
			}
			if nBlocked > 0 {
				c.NonTrivial()
				c.Label("blocked-candidate")
			}
			if fallback {
				c.NonTrivial()
				c.Label("zone-fallback")
			}
			if err != nil {
				c.Label("result:error")
				last = -1
			} else {
				c.Label("result:ok")
				last, _ = c17Idx(got.ID)
			}
			if len(described) == 0 && len(l.idx) > 0 {
				c.Label("all-from-cache")
			}

			// aliasing: the caller's slice (and the spare capacity behind it) is untouched
			if diff := l.changed(); diff != "" {
				if op.Policy == "random" && c17Known() {
					c.Label("known:" + c17KnownShuffle)
					l.restore()
				} else {
					c.Fatalf("step %d: GetOne(policy=%q) modified the caller's candidate slice: %s", step, op.Policy, diff)
				}
			}
		}
	}
}

func TestVerifC17Select(t *testing.T) {
	vt.Run(t, c17GenScenario, c17RunScenario)
}

// Deterministic witness for the open finding C17-random-shuffle (only while listed).
func TestVerifC17KnownWitnessShuffle(t *testing.T) {
	if !c17Known() {
		t.Skip("finding not listed as open")
	}
	c17Seed(1)
	clk := &c17Clock{}
	cloud := &c17Cloud{}
	idx := []int{}
	for i := 0; i < 8; i++ {
		cloud.vsw = append(cloud.vsw, c17VSW{Zone: 0, Free: 10})
		idx = append(idx, i)
	}
	pool := c17NewPool(clk, 3)
	l := c17MakeList(idx, 0)
	for i := 0; i < 20; i++ {
		_, _ = pool.GetOne(context.Background(), cloud, c17Zone(0), l.slice, c17Opts("random", false, false)...)
		if d := l.changed(); d != "" {
			vt.KnownFindingLine("C17", "GetOne with policy random reorders the caller's candidate slice in place ("+d+")")
			return
		}
	}
}
