//go:build race

package vswitch

const c17RaceEnabled = true
