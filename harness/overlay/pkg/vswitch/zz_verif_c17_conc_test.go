package vswitch

import (
	"context"
	"fmt"
	"os"
	"strings"
	"sync"
	"sync/atomic"
	"testing"
	"time"

	"runtime"

	"pgregory.net/rapid"

	"github.com/AliyunContainerService/terway/zz_verif/vt"
)

// Concurrent rounds: N goroutines share ONE candidate slice (as pkg/factory/aliyun
// does with its vSwitchOptions) and call GetOne, optionally followed by Block of the
// id they got. The clock and the cloud are fixed during a round, so for every call
// the set of views a candidate can have during the call is known from happens-before
// stamps alone; only consequences that hold under every interleaving are demanded.
// The unit is built with -race: a report that involves SwitchPool code is a violation.

type c17COp struct {
	Zone       int    `json:"zone,omitempty"`
	Policy     string `json:"policy,omitempty"`
	IgnoreZone bool   `json:"ignoreZone,omitempty"`
	Block      bool   `json:"block,omitempty"` // Block(result) after a successful GetOne
	Yield      int    `json:"yield,omitempty"` // runtime.Gosched() calls before the op
}

type c17Change struct {
	ID   int   `json:"id"`
	Free int64 `json:"free"`
	Fail bool  `json:"fail,omitempty"`
}

type c17Round struct {
	Adv       int         `json:"adv,omitempty"` // whole units the clock advances before the round
	Changes   []c17Change `json:"changes,omitempty"`
	DescYield int         `json:"descYield,omitempty"` // Gosched calls inside every describe
	Workers   [][]c17COp  `json:"workers"`
}

type c17ConcScenario struct {
	Seed   int64      `json:"seed"`
	TTL    int        `json:"ttl"`
	VSW    []c17VSW   `json:"vsw"`
	List   []int      `json:"list"`
	Extra  int        `json:"extra"`
	Rounds []c17Round `json:"rounds"`
}

func c17GenConc(t *rapid.T) c17ConcScenario {
	s := c17ConcScenario{}
	s.Seed = rapid.Int64Range(1, 1<<40).Draw(t, "seed")
	s.TTL = rapid.IntRange(1, 4).Draw(t, "ttl")
	s.VSW = c17GenCloud(t, 8)
	n := len(s.VSW)
	s.List = c17GenList(t, n, 2)
	s.Extra = rapid.IntRange(0, 2).Draw(t, "extra")
	// one policy per scenario most of the time (a factory has one), mixed otherwise
	fixed := c17PolicyGen.Draw(t, "fixedPolicy")
	mixed := rapid.IntRange(0, 3).Draw(t, "mixed") == 0
	opGen := rapid.Custom(func(t *rapid.T) c17COp {
		o := c17COp{Policy: fixed}
		if mixed {
			o.Policy = c17PolicyGen.Draw(t, "policy")
		}
		o.Zone = c17ReqZoneGen.Draw(t, "zone")
		o.IgnoreZone = rapid.IntRange(0, 2).Draw(t, "iz") == 0
		o.Block = rapid.IntRange(0, 2).Draw(t, "block") != 0
		o.Yield = rapid.IntRange(0, 3).Draw(t, "yield")
		return o
	})
	roundGen := rapid.Custom(func(t *rapid.T) c17Round {
		r := c17Round{}
		r.Adv = rapid.SampledFrom([]int{0, s.TTL, 1, s.TTL + 1, s.TTL - 1}).Draw(t, "adv")
		if r.Adv < 0 {
			r.Adv = 0
		}
		r.Changes = rapid.SliceOfN(rapid.Custom(func(t *rapid.T) c17Change {
			return c17Change{ID: rapid.IntRange(0, n-1).Draw(t, "id"), Free: c17FreeGen.Draw(t, "free"),
				Fail: rapid.IntRange(0, 7).Draw(t, "fail") == 0}
		}), 0, 2).Draw(t, "changes")
		r.DescYield = rapid.IntRange(0, 3).Draw(t, "descYield")
		nw := rapid.SampledFrom([]int{4, 2, 8, 3, 6, 1}).Draw(t, "workers")
		for i := 0; i < nw; i++ {
			r.Workers = append(r.Workers, rapid.SliceOfN(opGen, 1, 4).Draw(t, "ops"))
		}
		return r
	})
	s.Rounds = rapid.SliceOfN(roundGen, 1, vt.Scale(4, 8)).Draw(t, "rounds")
	return s
}

type c17GetEv struct {
	worker, opn int
	op          c17COp
	start, end  int64
	got         *Switch
	gotCopy     Switch
	err         error
	private     bool
}

type c17BlockEv struct {
	id         int
	start, end int64
}

// possible views of one candidate during the interval [start, end] of a call.
// refill: the open finding C17-stale-fill applies to this id in this round (a cache
// fill that began before a Block may land after it), so a completed Block only makes
// the blocked view possible, not certain.
func c17PossibleViews(base c17View, baseBlocked bool, blocks []c17BlockEv, refill bool, start, end int64) []c17View {
	if !base.ok || baseBlocked {
		return []c17View{base}
	}
	blk := c17View{ok: true, zone: base.zone, free: 0}
	certainly, possibly := false, false
	for _, b := range blocks {
		if b.end < start && !refill {
			certainly = true
		} else if b.start < end {
			possibly = true
		}
	}
	switch {
	case certainly:
		return []c17View{blk}
	case possibly:
		return []c17View{base, blk}
	}
	return []c17View{base}
}

func c17PE(vs []c17View, zone int, inZone bool) bool {
	for _, v := range vs {
		if v.eligible(zone, inZone) {
			return true
		}
	}
	return false
}

func c17CE(vs []c17View, zone int, inZone bool) bool {
	for _, v := range vs {
		if !v.eligible(zone, inZone) {
			return false
		}
	}
	return len(vs) > 0
}

func c17RunConc(c *vt.Ctx, s c17ConcScenario) {
	if len(s.VSW) == 0 || len(s.List) == 0 {
		return
	}
	c17Seed(s.Seed)
	if c17RaceEnabled {
		c.Label("race-detector:on")
	} else {
		c.Label("race-detector:off")
	}
	n := len(s.VSW)
	clk := &c17Clock{}
	cloud := &c17Cloud{vsw: append([]c17VSW(nil), s.VSW...)}
	pool := c17NewPool(clk, s.TTL)
	ttl := int64(c17TTL(s.TTL))
	model := make([]c17Entry, n)
	shared := c17MakeList(s.List, s.Extra)
	ctx := context.Background()
	known := c17Known()

	for ri, r := range s.Rounds {
		clk.advance(r.Adv)
		for _, ch := range r.Changes {
			id := ch.ID % n
			cloud.set(id, func(v *c17VSW) { v.Free, v.Fail = ch.Free, ch.Fail })
		}
		cloud.mu.Lock()
		cloud.yield = r.DescYield
		cloud.mu.Unlock()
		now := clk.now()

		// base view of every cloud id for this round
		base := make([]c17View, n+1) // n = unknown id: !ok
		baseBlocked := make([]bool, n+1)
		for id := 0; id < n; id++ {
			if e := model[id]; e.valid(now) {
				base[id] = c17View{ok: true, zone: e.zone, free: e.free}
				baseBlocked[id] = e.blocked
			} else {
				base[id] = c17CloudView(cloud.get(id))
			}
		}

		var (
			stamp   atomic.Int64
			mu      sync.Mutex
			gets    []c17GetEv
			blocks  = map[int][]c17BlockEv{}
			wg      sync.WaitGroup
			startCh = make(chan struct{})
		)
		callsBefore := cloud.ncalls()
		for wi, ops := range r.Workers {
			wg.Add(1)
			go func(wi int, ops []c17COp) {
				defer wg.Done()
				<-startCh
				for oi, op := range ops {
					for y := 0; y < op.Yield; y++ {
						runtime.Gosched()
					}
					ids := shared.slice
					private := false
					if known && op.Policy == "random" {
						// open finding C17-random-shuffle: the class "random on a shared
						// slice" is excluded; every call gets its own copy
						ids = append([]string(nil), shared.pristine[:len(shared.idx)]...)
						private = true
					}
					ev := c17GetEv{worker: wi, opn: oi, op: op, private: private}
					ev.start = stamp.Add(1)
					ev.got, ev.err = pool.GetOne(ctx, cloud, c17Zone(op.Zone), ids, c17Opts(op.Policy, op.IgnoreZone, false)...)
					ev.end = stamp.Add(1)
					var bev *c17BlockEv
					if ev.got != nil {
						ev.gotCopy = *ev.got
						if gi, ok := c17Idx(ev.got.ID); ok && op.Block {
							bev = &c17BlockEv{id: gi}
							bev.start = stamp.Add(1)
							pool.Block(ev.got.ID)
							bev.end = stamp.Add(1)
						}
					}
					mu.Lock()
					gets = append(gets, ev)
					if bev != nil {
						blocks[bev.id] = append(blocks[bev.id], *bev)
					}
					mu.Unlock()
				}
			}(wi, ops)
		}
		close(startCh)
		done := make(chan struct{})
		go func() { wg.Wait(); close(done) }()
		select {
		case <-done:
		case <-time.After(60 * time.Second):
			c.Inconclusive("workers did not finish within 60s")
		}

		// ---- side effects on the shared slice
		if diff := shared.changed(); diff != "" {
			c.Fatalf("round %d: %d goroutines shared one candidate slice; after the round it is modified: %s", ri, len(r.Workers), diff)
		}
		if rep := c17NewRaceReports(); rep != "" {
			if strings.Contains(rep, "vswitch.(*SwitchPool)") || strings.Contains(rep, "pkg/vswitch/vswitch.go") {
				c.Fatalf("round %d: the race detector reported a data race in SwitchPool code:\n%s", ri, rep)
			}
			c.Label("race-report-outside-switchpool")
		}

		// ---- per-call validity
		described := map[int]int{}
		for _, d := range cloud.callsSince(callsBefore) {
			if d.ok {
				described[d.id]++
			}
		}
		nBlocks := 0
		for _, b := range blocks {
			nBlocks += len(b)
		}
		// open finding C17-stale-fill: ids that were not cached when the round began and
		// are blocked while a GetOne of another goroutine is in flight
		refill := map[int]bool{}
		if c17KnownStale() {
			for id, bs := range blocks {
				if id < n && model[id].valid(now) {
					continue // cached before the round: no fill can happen
				}
				for _, b := range bs {
					for _, g := range gets {
						if g.start < b.end && g.end > b.start {
							refill[id] = true
						}
					}
				}
			}
		}
		maxPE := 0
		for _, ev := range gets {
			zone := ev.op.Zone
			views := make([][]c17View, len(s.List))
			pe := map[int]bool{}
			for k, id := range s.List {
				views[k] = c17PossibleViews(base[id], baseBlocked[id], blocks[id], refill[id], ev.start, ev.end)
				if c17PE(views[k], zone, true) || (ev.op.IgnoreZone && c17PE(views[k], zone, false)) {
					pe[id] = true
				}
			}
			if len(pe) > maxPE {
				maxPE = len(pe)
			}
			anyCE := func(inZone bool) int {
				for k := range s.List {
					if c17CE(views[k], zone, inZone) {
						return k
					}
				}
				return -1
			}
			desc := fmt.Sprintf("round %d worker %d op %d: GetOne(zone=%s, ids=%v, policy=%q, ignoreZone=%v)", ri, ev.worker, ev.opn,
				c17Zone(zone), shared.pristine[:len(s.List)], ev.op.Policy, ev.op.IgnoreZone)
			c.Trace("%s [%d,%d] -> %s err=%v", desc, ev.start, ev.end, c17SwStr(ev.got), ev.err != nil)
			if ev.got == nil || ev.err != nil {
				if ev.got != nil || ev.err == nil {
					c.Fatalf("%s returned (%s, %v)", desc, c17SwStr(ev.got), ev.err)
				}
				if k := anyCE(true); k >= 0 {
					c.Fatalf("%s failed (%v) although %s is in zone with free addresses during the whole call", desc, ev.err, c17ID(s.List[k]))
				}
				if ev.op.IgnoreZone {
					if k := anyCE(false); k >= 0 {
						c.Fatalf("%s failed (%v) although zone fallback is enabled and %s has free addresses during the whole call", desc, ev.err, c17ID(s.List[k]))
					}
				}
				continue
			}
			got := ev.gotCopy
			gi, ok := c17Idx(got.ID)
			first := -1
			for k, id := range s.List {
				if ok && id == gi {
					first = k
					break
				}
			}
			if first < 0 {
				c.Fatalf("%s returned %s which is not in the caller's list", desc, got.ID)
			}
			b := base[gi]
			if !b.ok || got.Zone != c17Zone(b.zone) || got.AvailableIPCount != b.free || got.AvailableIPCount <= 0 {
				c.Fatalf("%s returned %s; the only view with free addresses it can have in this round is %+v", desc, c17SwStr(&got), b)
			}
			inZone := b.zone == zone
			if !inZone && !ev.op.IgnoreZone {
				c.Fatalf("%s returned %s in %s without zone fallback", desc, got.ID, got.Zone)
			}
			if !c17PE(views[first], zone, inZone) {
				c.Fatalf("%s returned %s which cannot have free addresses during this call (blocked before the call started, or exhausted); blocks of it: %+v",
					desc, got.ID, blocks[gi])
			}
			if !inZone {
				if k := anyCE(true); k >= 0 {
					c.Fatalf("%s fell back to %s in %s although %s is in zone with free addresses during the whole call", desc, got.ID, got.Zone, c17ID(s.List[k]))
				}
			}
			switch ev.op.Policy {
			case "ordered":
				for k := 0; k < first; k++ {
					if c17CE(views[k], zone, inZone) {
						c.Fatalf("%s (ordered) returned %s (position %d) although %s (position %d) is eligible during the whole call",
							desc, got.ID, first, c17ID(s.List[k]), k)
					}
				}
			case "most":
				for k, id := range s.List {
					if c17CE(views[k], zone, inZone) && base[id].free > b.free {
						c.Fatalf("%s (most) returned %s with %d free although %s has %d free during the whole call",
							desc, got.ID, b.free, c17ID(id), base[id].free)
					}
				}
			}
		}

		// ---- evidence classes
		if len(r.Workers) >= 2 {
			c.Label("workers>=2")
			if maxPE >= 2 || nBlocks > 0 {
				c.NonTrivial()
			}
		}
		if maxPE >= 2 {
			c.Label("possibly-eligible>=2")
		}
		if nBlocks > 0 {
			c.Label("blocks-in-round")
		}
		for id, cnt := range described {
			if cnt > 1 && !model[id].valid(now) {
				c.Label("info:>1-describe-per-cache-generation")
			}
			if model[id].valid(now) {
				c.Label("info:described-while-cached")
			}
		}
		for _, ev := range gets {
			if ev.private {
				c.Label("known:" + c17KnownShuffle)
				break
			}
		}

		// ---- model after the round
		for id := 0; id < n; id++ {
			switch {
			case refill[id]:
				// excluded class: either outcome is accepted, the cache is asked
				model[id] = c17Entry{present: true, zone: base[id].zone, free: 0, blocked: true, expire: now + ttl}
				if v, ok := pool.cache.Get(c17ID(id)); ok && v.(*Switch).AvailableIPCount != 0 {
					model[id] = c17Entry{present: true, zone: base[id].zone, free: base[id].free, expire: now + ttl}
					c.Label("known:" + c17KnownStaleFill + ":unblocked")
				} else {
					c.Label("known:" + c17KnownStaleFill + ":excluded")
				}
			case len(blocks[id]) > 0:
				// Block is only called with an id GetOne just returned, so a live entry
				// existed (clock fixed): the entry is blocked for a full ttl from now
				model[id] = c17Entry{present: true, zone: base[id].zone, free: 0, blocked: true, expire: now + ttl}
			case !model[id].valid(now) && described[id] > 0:
				v := cloud.get(id)
				model[id] = c17Entry{present: true, zone: v.Zone, free: v.Free, expire: now + ttl}
			}
		}
	}
}

// ---------------------------------------------------------------- race reports

// The driver starts the race unit with GORACE=log_path=<prefix>; the runtime then
// writes reports to <prefix>.<pid>. Reading the file after each round turns a report
// into a violation of the case that produced it (with a replay file) instead of an
// anonymous failure of the whole binary.
var (
	c17RaceMu  sync.Mutex
	c17RaceOff int64
)

func c17RaceLogPath() string {
	for _, f := range strings.Fields(os.Getenv("GORACE")) {
		if strings.HasPrefix(f, "log_path=") {
			p := strings.TrimPrefix(f, "log_path=")
			if p == "stdout" || p == "stderr" || p == "" {
				return ""
			}
			return fmt.Sprintf("%s.%d", p, os.Getpid())
		}
	}
	return ""
}

func c17NewRaceReports() string {
	p := c17RaceLogPath()
	if p == "" {
		return ""
	}
	c17RaceMu.Lock()
	defer c17RaceMu.Unlock()
	b, err := os.ReadFile(p)
	if err != nil || int64(len(b)) <= c17RaceOff {
		return ""
	}
	rep := string(b[c17RaceOff:])
	c17RaceOff = int64(len(b))
	if !strings.Contains(rep, "DATA RACE") {
		return ""
	}
	if len(rep) > 6000 {
		rep = rep[:6000] + "\n…"
	}
	return rep
}

func TestVerifC17Concurrent(t *testing.T) {
	vt.Run(t, c17GenConc, c17RunConc)
}

// c17StaleFillOnce tries once to observe the open finding C17-stale-fill: one
// goroutine takes the vSwitch and reports it exhausted while other lookups of the same
// (not yet cached) id are in flight; afterwards, with the clock unchanged, the blocked
// id must not be handed out. Returns a description if it is.
func c17StaleFillOnce(workers, yield int) string {
	clk := &c17Clock{}
	cloud := &c17Cloud{vsw: []c17VSW{{Zone: 0, Free: 5}}, yield: yield}
	pool := c17NewPool(clk, 3)
	ids := []string{c17ID(0)}
	ctx := context.Background()
	var wg sync.WaitGroup
	start := make(chan struct{})
	var blocked atomic.Bool
	for w := 0; w < workers; w++ {
		wg.Add(1)
		go func(w int) {
			defer wg.Done()
			<-start
			// lookups with a foreign zone never return the id but fill the cache
			zone := c17Zone(1)
			if w == 0 {
				zone = c17Zone(0)
			}
			sw, err := pool.GetOne(ctx, cloud, zone, ids, c17Opts("ordered", false, false)...)
			if w == 0 && err == nil {
				pool.Block(sw.ID)
				blocked.Store(true)
			}
		}(w)
	}
	close(start)
	wg.Wait()
	if !blocked.Load() {
		return ""
	}
	if sw, err := pool.GetOne(ctx, cloud, c17Zone(0), ids, c17Opts("ordered", false, false)...); err == nil {
		return fmt.Sprintf("Block(%s) returned, clock unchanged, yet GetOne hands out %s: a cache fill that started before Block landed after it",
			sw.ID, c17SwStr(sw))
	}
	return ""
}

// Statistical witness for the open finding C17-stale-fill (only while listed); the
// interleaving cannot be forced without a hook between two statements of GetByID.
func TestVerifC17KnownWitnessStaleFill(t *testing.T) {
	if !c17KnownStale() {
		t.Skip("finding not listed as open")
	}
	for i := 0; i < 5000; i++ {
		if d := c17StaleFillOnce(2+i%5, i%4); d != "" {
			vt.KnownFindingLine("C17", "a vSwitch reported exhausted is chosen again before its cache entry expires ("+d+fmt.Sprintf("; attempt %d)", i))
			return
		}
	}
	t.Log("stale fill not observed in 5000 attempts")
}
