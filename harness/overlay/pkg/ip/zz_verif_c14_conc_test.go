package ip

import (
	"fmt"
	"net"
	"net/netip"
	"runtime"
	"sync"
	"sync/atomic"
	"testing"

	"github.com/AliyunContainerService/terway/zz_verif/vt"
	"pgregory.net/rapid"
)

// C14 (b) under concurrency: the gateway of a subnet is a function of the subnet only.
// The daemon derives gateways from per-pod request goroutines, so a case takes 2..8
// generated subnets (IPv4 over-weighted), gives each its own goroutine, releases them
// together from a spin barrier to call a few hundred times back to back, and compares every DeriveGatewayIP /
// GetIPAtIndex answer with the big-integer reference of that subnet (the oracle of
// TestVerifC14Gateway) and with the answer obtained sequentially beforehand.

type gwConcScenario struct {
	Subnets []gwScenario `json:"subnets"` // one goroutine each
	Rounds  int          `json:"rounds"`
}

func genGWConc(t *rapid.T) gwConcScenario {
	s := gwConcScenario{Rounds: rapid.IntRange(200, vt.Scale(600, 1500)).Draw(t, "rounds")}
	n := rapid.IntRange(2, 8).Draw(t, "n")
	for i := 0; i < n; i++ {
		v6 := rapid.IntRange(0, 3).Draw(t, "fam") == 0
		s.Subnets = append(s.Subnets, genGWFam(t, v6))
	}
	return s
}

type gwConcCall struct {
	cidr       string
	ipn        net.IPNet
	index      int64
	wantGW     net.IP // reference, nil = none
	judgeGW    bool   // inside the domain of the reference (see outsideDomain)
	wantAt     net.IP
	judgeAt    bool
	seqGW      string
	seqAt      net.IP
	violation  string // first deviation seen by the goroutine
	violations int
}

func (k *gwConcCall) checkGW(got string) string {
	if got != k.seqGW {
		return fmt.Sprintf("DeriveGatewayIP(%q) = %q while other goroutines derive other subnets, %q when called alone", k.cidr, got, k.seqGW)
	}
	if !k.judgeGW {
		return ""
	}
	switch {
	case k.wantGW == nil && got != "":
		return fmt.Sprintf("DeriveGatewayIP(%q) = %q, want empty (subnet has < 3 addresses)", k.cidr, got)
	case k.wantGW != nil && (net.ParseIP(got) == nil || !net.ParseIP(got).Equal(k.wantGW)):
		return fmt.Sprintf("DeriveGatewayIP(%q) = %q, want %s (third from last)", k.cidr, got, k.wantGW)
	}
	return ""
}

func (k *gwConcCall) checkAt(got net.IP) string {
	if (got == nil) != (k.seqAt == nil) || (got != nil && !got.Equal(k.seqAt)) {
		return fmt.Sprintf("GetIPAtIndex(%s, %d) = %v while other goroutines work on other subnets, %v when called alone", k.ipn.String(), k.index, got, k.seqAt)
	}
	if !k.judgeAt {
		return ""
	}
	if (got == nil) != (k.wantAt == nil) || (got != nil && !got.Equal(k.wantAt)) {
		return fmt.Sprintf("GetIPAtIndex(%s, %d) = %v, want %v", k.ipn.String(), k.index, got, k.wantAt)
	}
	return ""
}

func runGWConc(c *vt.Ctx, s gwConcScenario) {
	if len(s.Subnets) < 2 || len(s.Subnets) > 8 || s.Rounds < 1 || s.Rounds > 5000 {
		c.Inconclusive("scenario outside the generated domain")
	}
	calls := make([]*gwConcCall, len(s.Subnets))
	v4 := 0
	distinct := map[string]bool{}
	for i, g := range s.Subnets {
		n := 4
		if g.V6 {
			n = 16
		} else {
			v4++
		}
		if len(g.Addr) != n || g.Prefix < 0 || g.Prefix > n*8 {
			c.Inconclusive("scenario outside the generated domain")
		}
		mask := net.CIDRMask(g.Prefix, n*8)
		k := &gwConcCall{index: g.Index}
		k.ipn = net.IPNet{IP: net.IP(g.Addr).Mask(mask), Mask: mask}
		txt := net.IP(g.Addr)
		if g.Form == 0 {
			txt = k.ipn.IP
		}
		k.cidr = (&net.IPNet{IP: txt, Mask: mask}).String()
		if mappedV6(txt) {
			k.cidr = fmt.Sprintf("%s/%d", netip.AddrFrom16([16]byte(txt)), g.Prefix)
		}
		k.wantGW = refAtIndex(g.Addr, g.Prefix, -3)
		k.judgeGW = !outsideDomain(g.Addr, g.Prefix, -3, k.wantGW)
		k.wantAt = refAtIndex(g.Addr, g.Prefix, g.Index)
		k.judgeAt = !outsideDomain(g.Addr, g.Prefix, g.Index, k.wantAt)
		distinct[k.ipn.String()] = true
		calls[i] = k
	}
	// sequential pass: the answers of each subnet on its own, judged by the reference
	for _, k := range calls {
		k.seqGW = DeriveGatewayIP(k.cidr)
		k.seqAt = GetIPAtIndex(k.ipn, k.index)
		if v := k.checkGW(k.seqGW); v != "" {
			c.Fatalf("sequential: %s", v)
		}
		if v := k.checkAt(k.seqAt); v != "" {
			c.Fatalf("sequential: %s", v)
		}
	}

	// concurrent part: all goroutines are released together from a spin barrier and then
	// call back to back, so the calls of different subnets overlap all the time
	n := int64(len(calls))
	var arrived atomic.Int64
	var wg sync.WaitGroup
	for _, k := range calls {
		wg.Add(1)
		go func(k *gwConcCall) {
			defer wg.Done()
			arrived.Add(1)
			for spins := 0; arrived.Load() < n; spins++ {
				if spins > 1000 {
					runtime.Gosched()
				}
			}
			for r := 1; r <= s.Rounds; r++ {
				gw := DeriveGatewayIP(k.cidr)
				at := GetIPAtIndex(k.ipn, k.index)
				for _, v := range []string{k.checkGW(gw), k.checkAt(at)} {
					if v != "" {
						if k.violation == "" {
							k.violation = fmt.Sprintf("call %d: %s", r, v)
						}
						k.violations++
					}
				}
			}
		}(k)
	}
	wg.Wait()

	c.Labelf("goroutines=%d", len(calls))
	c.Labelf("ipv4-subnets=%d", v4)
	if len(distinct) >= 2 {
		c.NonTrivial()
	}
	for i, k := range calls {
		if k.violation != "" {
			var others []string
			for j, o := range calls {
				if j != i {
					others = append(others, o.cidr)
				}
			}
			c.Fatalf("%s (%d of %d calls of this goroutine deviate; concurrently derived: %v)", k.violation, k.violations, 2*s.Rounds, others)
		}
	}
}

func TestVerifC14GatewayConcurrent(t *testing.T) {
	vt.Run(t, genGWConc, runGWConc)
}

// TestVerifC14GatewayConcurrentRace is the same check under its own name for the unit
// built with -race (evidence is merged per test name).
func TestVerifC14GatewayConcurrentRace(t *testing.T) {
	vt.Run(t, genGWConc, runGWConc)
}
