package ip

import (
	"fmt"
	"math/big"
	"net"
	"net/netip"
	"testing"

	"github.com/AliyunContainerService/terway/zz_verif/vt"
	"pgregory.net/rapid"
)

// C14 (b): the gateway derived from a subnet is the third-from-last address inside it,
// or empty when the subnet is too small to have one.

type gwScenario struct {
	V6     bool   `json:"v6"`
	Addr   vt.Hex `json:"addr"`
	Prefix int    `json:"prefix"`
	Index  int64  `json:"index"`
	Form   int    `json:"form"` // 0 canonical network, 1 host bits set in the textual CIDR
}

func genGW(t *rapid.T) gwScenario {
	return genGWFam(t, rapid.Bool().Draw(t, "v6"))
}

func genGWFam(t *rapid.T, v6 bool) gwScenario {
	s := gwScenario{}
	s.V6 = v6
	n := 4
	if s.V6 {
		n = 16
	}
	// byte classes: 0x00, 0xff and arbitrary, so that leading-zero networks, all-ones
	// tails and carries are all common.
	s.Addr = make([]byte, n)
	for i := range s.Addr {
		switch rapid.IntRange(0, 3).Draw(t, "cls") {
		case 0:
			s.Addr[i] = 0
		case 1:
			s.Addr[i] = 0xff
		default:
			s.Addr[i] = rapid.Byte().Draw(t, "b")
		}
	}
	s.Prefix = rapid.IntRange(0, n*8).Draw(t, "prefix")
	if s.V6 && rapid.IntRange(0, 15).Draw(t, "mapped") == 0 {
		// subnets at and around the IPv4-mapped block ::ffff:0:0/96 (see mappedV6)
		copy(s.Addr, []byte{0, 0, 0, 0, 0, 0, 0, 0, 0, 0, 0xff, 0xff})
		s.Prefix = rapid.IntRange(72, 128).Draw(t, "mapped-prefix")
	}
	s.Form = rapid.IntRange(0, 1).Draw(t, "form")
	// index in [-size-2, size+2) clipped to small magnitudes most of the time
	s.Index = rapid.OneOf(
		rapid.Int64Range(-6, 6),
		rapid.Int64Range(-300, 300),
		rapid.Int64Range(-70000, 70000),
	).Draw(t, "index")
	return s
}

// refAtIndex is an independent big-integer model: network + index for index >= 0,
// broadcast + index + 1 for index < 0, nil if outside the subnet.
func refAtIndex(addr []byte, prefix int, index int64) net.IP {
	bits := len(addr) * 8
	a := new(big.Int).SetBytes(addr)
	hostBits := uint(bits - prefix)
	size := new(big.Int).Lsh(big.NewInt(1), hostBits)
	network := new(big.Int).Rsh(a, hostBits)
	network.Lsh(network, hostBits)
	var v *big.Int
	if index >= 0 {
		v = new(big.Int).Add(network, big.NewInt(index))
	} else {
		last := new(big.Int).Add(network, size)
		v = last.Add(last, big.NewInt(index))
	}
	if v.Cmp(network) < 0 {
		return nil
	}
	end := new(big.Int).Add(network, size)
	if v.Cmp(end) >= 0 {
		return nil
	}
	out := make([]byte, len(addr))
	v.FillBytes(out)
	return net.IP(out)
}

// mappedV6 reports whether a is a 16-byte address inside ::ffff:0:0/96. A net.IP cannot
// tell such an address from the IPv4 address in its last four bytes (To4, String, Equal
// and IPNet.Contains all treat it as IPv4), so neither the code under test nor the
// reference can name it as a member of an IPv6 subnet. IPv6 queries whose start address
// (first address for index >= 0, last address for index < 0) or expected result lies in
// that block are outside the domain of the check; they are counted, not judged.
func mappedV6(a net.IP) bool { return len(a) == net.IPv6len && a.To4() != nil }

func outsideDomain(addr []byte, prefix int, index int64, want net.IP) bool {
	if len(addr) != net.IPv6len {
		return false
	}
	anchor := refAtIndex(addr, prefix, 0)
	if index < 0 {
		anchor = refAtIndex(addr, prefix, -1)
	}
	return mappedV6(anchor) || mappedV6(want)
}

func runGW(c *vt.Ctx, s gwScenario) {
	bits := len(s.Addr) * 8
	mask := net.CIDRMask(s.Prefix, bits)
	ipn := net.IPNet{IP: net.IP(s.Addr).Mask(mask), Mask: mask}
	if s.Prefix%8 != 0 {
		c.Label("prefix-unaligned")
	}
	if s.Addr[0] == 0 {
		c.Label("leading-zero-byte")
	}
	hostBits := bits - s.Prefix
	if hostBits <= 2 {
		c.Label("tiny-subnet")
	}
	if s.Prefix%8 != 0 || hostBits <= 2 || s.Addr[0] == 0 {
		c.NonTrivial()
	}

	// DeriveGatewayIP on the textual form
	txtIP := net.IP(s.Addr)
	if s.Form == 0 {
		txtIP = ipn.IP
	}
	cidr := (&net.IPNet{IP: txtIP, Mask: mask}).String()
	if mappedV6(txtIP) {
		// net.IP.String() would print the IPv4 form, which is a different CIDR
		cidr = fmt.Sprintf("%s/%d", netip.AddrFrom16([16]byte(txtIP)), s.Prefix)
	}
	got := DeriveGatewayIP(cidr)
	want := refAtIndex(s.Addr, s.Prefix, -3)
	if outsideDomain(s.Addr, s.Prefix, -3, want) {
		c.Label("outside-domain:gateway-in-v4-mapped-block")
	} else if want == nil {
		if got != "" {
			c.Fatalf("DeriveGatewayIP(%q) = %q, want empty (subnet has < 3 addresses)", cidr, got)
		}
	} else {
		if got == "" {
			if knownLeadingZero(want) {
				c.Label("known:leading-zero")
			} else {
				c.Fatalf("DeriveGatewayIP(%q) = \"\", want %s", cidr, want)
			}
		} else {
			g := net.ParseIP(got)
			if g == nil || !g.Equal(want) {
				c.Fatalf("DeriveGatewayIP(%q) = %q, want %s (third from last)", cidr, got, want)
			}
			if !ipn.Contains(g) {
				c.Fatalf("DeriveGatewayIP(%q) = %q lies outside the subnet", cidr, got)
			}
		}
	}

	// GetIPAtIndex against the model
	gi := GetIPAtIndex(ipn, s.Index)
	wi := refAtIndex(s.Addr, s.Prefix, s.Index)
	switch {
	case outsideDomain(s.Addr, s.Prefix, s.Index, wi):
		c.Label("outside-domain:index-in-v4-mapped-block")
	case wi == nil && gi != nil:
		c.Fatalf("GetIPAtIndex(%s, %d) = %s, want nil", ipn.String(), s.Index, gi)
	case wi != nil && gi == nil:
		if knownLeadingZero(wi) {
			c.Label("known:leading-zero")
		} else {
			c.Fatalf("GetIPAtIndex(%s, %d) = nil, want %s", ipn.String(), s.Index, wi)
		}
	case wi != nil && !gi.Equal(wi):
		c.Fatalf("GetIPAtIndex(%s, %d) = %s, want %s", ipn.String(), s.Index, gi, wi)
	}
}

// knownLeadingZero: see known_findings.json C14-leading-zero (only consulted while that
// entry is listed as an open finding).
func knownLeadingZero(want net.IP) bool {
	return vt.Known("C14-leading-zero") && want[0] == 0
}

func TestVerifC14Gateway(t *testing.T) {
	vt.Run(t, genGW, runGW)
}
