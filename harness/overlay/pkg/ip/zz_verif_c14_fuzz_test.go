package ip

import (
	"fmt"
	"net"
	"net/netip"
	"testing"
)

// FuzzVerifC14Gateway: the oracle of TestVerifC14Gateway under Go's coverage-guided
// fuzzer (thorough tier).
func FuzzVerifC14Gateway(f *testing.F) {
	f.Add(false, []byte{192, 168, 1, 77}, uint8(24), int64(-3))
	f.Add(true, []byte{0xfd, 0, 0, 0, 0, 0, 0, 0, 0, 0, 0, 0, 0, 0, 0, 9}, uint8(126), int64(2))
	f.Add(false, []byte{0, 1, 2, 3}, uint8(7), int64(-70000))
	f.Fuzz(func(t *testing.T, v6 bool, addr []byte, prefix uint8, index int64) {
		n := 4
		if v6 {
			n = 16
		}
		a := make([]byte, n)
		copy(a, addr)
		p := int(prefix) % (n*8 + 1)
		mask := net.CIDRMask(p, n*8)
		ipn := net.IPNet{IP: net.IP(a).Mask(mask), Mask: mask}
		cidr := (&net.IPNet{IP: net.IP(a), Mask: mask}).String()
		if mappedV6(net.IP(a)) {
			// net.IP.String() prints a 16-byte IPv4-mapped address as IPv4; write it as IPv6
			var b [16]byte
			copy(b[:], a)
			cidr = fmt.Sprintf("%s/%d", netip.AddrFrom16(b).String(), p)
		}

		got, want := DeriveGatewayIP(cidr), refAtIndex(a, p, -3)
		switch {
		case outsideDomain(a, p, -3, want):
		case want == nil && got != "":
			t.Fatalf("DeriveGatewayIP(%q) = %q, want empty", cidr, got)
		case want != nil && (net.ParseIP(got) == nil || !net.ParseIP(got).Equal(want) || !ipn.Contains(net.ParseIP(got))):
			t.Fatalf("DeriveGatewayIP(%q) = %q, want %s", cidr, got, want)
		}
		gi, wi := GetIPAtIndex(ipn, index), refAtIndex(a, p, index)
		if outsideDomain(a, p, index, wi) {
			return
		}
		if (gi == nil) != (wi == nil) || (wi != nil && !gi.Equal(wi)) {
			t.Fatalf("GetIPAtIndex(%s, %d) = %v, want %v", ipn.String(), index, gi, wi)
		}
	})
}
