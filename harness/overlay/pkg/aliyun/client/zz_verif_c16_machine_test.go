package client

// C16 level 1: the real request builders (Finish / EFLO) over the real
// SimpleIdempotentKeyGenerator, driven as a state machine issue / fail / succeed over a
// pool of canonical parameter sets.  Every attempt builds a fresh options value (new tag
// map, drawn insertion order); every parameter set is issued at least c16MinIssues times
// so that Go's randomised map iteration is exercised.

import (
	"fmt"
	"testing"

	"pgregory.net/rapid"

	"github.com/AliyunContainerService/terway/zz_verif/vt"
)

const c16MinIssues = 8

const (
	c16OpIssue = iota
	c16OpFail
	c16OpSucceed
)

type c16Op struct {
	Op   int    `json:"op"`             // issue / fail / succeed
	P    int    `json:"p,omitempty"`    // issue: index into the pool
	I    int    `json:"i,omitempty"`    // fail/succeed: k mod len(in flight); -1 = most recent
	Seed uint32 `json:"seed,omitempty"` // issue: insertion order of the tag map
	// issue of a create: the caller passes its shared leading type option plus a fresh
	// option (node controller style) instead of one fresh option
	Split bool `json:"split,omitempty"`
}

type c16MachScenario struct {
	// capacity of the generator's cache (IDEMPOTENT_KEY_CACHE_SIZE); 0 = default (500).
	// The history never has more tokens parked at once than the capacity (a fail that
	// would exceed it is played as a success), so nothing parked may ever be lost.
	Cache int        `json:"cache,omitempty"`
	Pool  []c16Param `json:"pool"`
	Ops   []c16Op    `json:"ops"`
}

func c16GenMach(t *rapid.T) c16MachScenario {
	s := c16MachScenario{}
	maxPool := vt.Scale(4, 6)
	if rapid.IntRange(0, 2).Draw(t, "smallcache") == 2 {
		s.Cache = rapid.IntRange(2, 8).Draw(t, "cache")
		if s.Cache+2 > maxPool {
			maxPool = s.Cache + 2 // more distinct parameter sets than cache slots
		}
	}
	s.Pool = c16GenPool(t, 1, maxPool, c16MaxTags)
	n := rapid.IntRange(1, vt.Scale(40, 120)).Draw(t, "nops")
	issues := make([]int, len(s.Pool))
	for i := 0; i < n; i++ {
		op := c16Op{}
		switch w := rapid.IntRange(0, 99).Draw(t, "op"); {
		case w < 45:
			op.Op = c16OpIssue
			op.P = rapid.IntRange(0, len(s.Pool)-1).Draw(t, "p")
			op.Seed = rapid.Uint32().Draw(t, "seed")
			op.Split = rapid.IntRange(0, 2).Draw(t, "split") == 2
			issues[op.P]++
		case w < 85:
			op.Op = c16OpFail
			op.I = rapid.IntRange(0, 15).Draw(t, "i")
		default:
			op.Op = c16OpSucceed
			op.I = rapid.IntRange(0, 15).Draw(t, "i")
		}
		s.Ops = append(s.Ops, op)
	}
	// every parameter set is attempted at least c16MinIssues times: fail -> retry rounds
	for p := range s.Pool {
		for ; issues[p] < c16MinIssues; issues[p]++ {
			s.Ops = append(s.Ops,
				c16Op{Op: c16OpIssue, P: p, Seed: rapid.Uint32().Draw(t, "seed"), Split: rapid.IntRange(0, 2).Draw(t, "split") == 2},
				c16Op{Op: c16OpFail, I: -1})
		}
	}
	return s
}

type c16Inflight struct {
	p        int
	tok      string
	rollback func()
}

func c16RunMach(c *vt.Ctx, s c16MachScenario) {
	c16Setup()
	g := c16NewGen(s.Cache)
	cl := c16NewCaller()
	m := c16NewModel()
	atCapacity := func() bool { return s.Cache > 0 && m.parked() >= s.Cache }
	sawCapacity, maxParked := false, 0
	c16PoolLabels(c, s.Pool)
	sawSplit := false
	var live []c16Inflight
	nextID := 0
	for step, op := range s.Ops {
		switch op.Op {
		case c16OpIssue:
			p := s.Pool[op.P%len(s.Pool)]
			tok, rb, err := c16IssueFrom(g, cl, op.Split, p, op.Seed)
			if err != nil {
				c.Inconclusive(fmt.Sprintf("builder rejected parameter set %s: %v", p.key(), err)) // not this property's business
			}
			if op.Split && p.Kind <= c16CreateEFLO {
				sawSplit = true
			}
			nextID++
			c.Trace("step %d: issue #%d pool[%d] %s order=%v split=%v -> token %s = %s", step, nextID, op.P, p.key(), c16Order(len(p.Tags), op.Seed), op.Split, m.name(tok), tok)
			if msg := m.issue(p, tok, nextID); msg != "" {
				c.Fatalf("step %d: %s", step, msg)
			}
			live = append(live, c16Inflight{p: op.P % len(s.Pool), tok: tok, rollback: rb})
		case c16OpFail, c16OpSucceed:
			if len(live) == 0 {
				continue
			}
			i := len(live) - 1
			if op.I >= 0 {
				i = op.I % len(live)
			}
			f := live[i]
			live = append(live[:i], live[i+1:]...)
			fail := op.Op == c16OpFail
			if fail && atCapacity() {
				fail, sawCapacity = false, true // cache full of parked tokens: this attempt succeeds instead
			}
			if fail {
				f.rollback()
				m.fail(s.Pool[f.p], f.tok)
				if n := m.parked(); n > maxParked {
					maxParked = n
				}
				c.Trace("step %d: fail    token %s (pool[%d]) -> rolled back (%d parked)", step, m.name(f.tok), f.p, m.parked())
			} else {
				m.succeed(s.Pool[f.p], f.tok)
				c.Trace("step %d: succeed token %s (pool[%d])", step, m.name(f.tok), f.p)
			}
		}
	}
	// quiescence: everything still in flight fails; then every returned token must be
	// obtainable again (none lost), per parameter set.
	for _, f := range live {
		if atCapacity() {
			m.succeed(s.Pool[f.p], f.tok)
			continue
		}
		f.rollback()
		m.fail(s.Pool[f.p], f.tok)
	}
	for pi, p := range s.Pool {
		k := p.key()
		if m.orphaned[k] || (m.known && p.knownClass()) {
			continue
		}
		for n := len(m.returned[k]); n > 0; n-- {
			tok, _, err := c16Issue(g, p, uint32(n))
			if err != nil {
				c.Inconclusive(fmt.Sprintf("builder rejected parameter set %s: %v", k, err))
			}
			nextID++
			c.Trace("drain: issue #%d pool[%d] -> %s = %s", nextID, pi, m.name(tok), tok)
			if msg := m.issue(p, tok, nextID); msg != "" {
				c.Fatalf("drain: %s", msg)
			}
		}
	}
	if sawSplit {
		c.Label("create from shared leading option + fresh option")
	}
	if s.Cache > 0 {
		c.Label("small cache (capacity 2-8)")
		if len(s.Pool) > s.Cache {
			c.Label("small cache: more parameter sets than cache slots")
		}
		if maxParked == s.Cache {
			c.Label("small cache: parked tokens reached the capacity")
		}
		if sawCapacity {
			c.Label("small cache: fail played as success at capacity")
		}
	}
	m.labels(c)
}

func TestVerifC16Machine(t *testing.T) {
	vt.Run(t, c16GenMach, c16RunMach)
}

type c16WitnessScenario struct {
	Param  c16Param `json:"param"`
	Rounds int      `json:"rounds"`
}

// TestVerifC16KnownWitness is the deterministic witness of finding C16-tag-order: one
// ecs-create parameter set with 8 tags, attempt -> fail -> retry, 32 rounds.  It only
// reports (KNOWN-FINDING line) while the finding is listed as open; it never fails.
func TestVerifC16KnownWitness(t *testing.T) {
	vt.Run(t, func(*rapid.T) c16WitnessScenario {
		p := c16Param{Kind: c16CreateECS, VSw: "vsw-a", SGs: []string{"sg-1"}, IPCount: 1}
		for i := 0; i < 8; i++ {
			p.Tags = append(p.Tags, c16Tag{K: "k0" + string(rune('0'+i)), V: "x"})
		}
		return c16WitnessScenario{Param: p, Rounds: 32}
	}, func(c *vt.Ctx, s c16WitnessScenario) {
		if !vt.Known(c16KnownTagOrder) {
			c.Label("finding not listed as open: witness not run")
			return
		}
		c16Setup()
		g := NewIdempotentKeyGenerator()
		first, rb, err := c16Issue(g, s.Param, 0)
		if err != nil {
			c.Inconclusive("builder rejected the witness parameters: " + err.Error())
		}
		rb()
		for i := 1; i <= s.Rounds; i++ {
			tok, rb, err := c16Issue(g, s.Param, uint32(i))
			if err != nil {
				c.Inconclusive("builder rejected the witness parameters: " + err.Error())
			}
			if tok != first {
				c.Label("known:" + c16KnownTagOrder)
				vt.KnownFindingLine("C16", "CreateNetworkInterfaceOptions.Finish with >= 2 tags: the retry of a failed attempt carries a fresh ClientToken (tag map ranged before hashing)")
				return
			}
			rb()
		}
		c.Label("witness no longer fails")
	})
}
