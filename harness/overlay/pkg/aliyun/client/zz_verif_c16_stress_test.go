package client

// C16 level 3: true concurrency.  G goroutines run drawn programs of
// attempt -> (hold) -> fail|succeed over at most 4 parameter sets against one real
// SimpleIdempotentKeyGenerator through the real builders.  The oracle is sound under
// any interleaving:
//
//   - a token is entered into the ledger of outstanding tokens right after the builder
//     returned it and removed right BEFORE its rollback runs; finding it already there
//     means two requests were in flight with the same token;
//   - a token never appears under two different parameter sets;
//   - at quiescence every token whose last event was a rollback must be obtainable
//     again for its parameter set (none lost, none replaced by a fresh one).
//
// Registered a second time in a unit built with -race.

import (
	"fmt"
	"sync"
	"testing"
	"time"

	"pgregory.net/rapid"

	"github.com/AliyunContainerService/terway/zz_verif/vt"
)

type c16StressOp struct {
	P    int    `json:"p"`              // index into the pool
	Hold int    `json:"hold"`           // number of further attempts this goroutine starts before resolving this one
	Fail bool   `json:"fail"`           // resolve by rollback (true) or success (false)
	Seed uint32 `json:"seed,omitempty"` // tag insertion order
}

type c16StressScenario struct {
	Pool   []c16Param      `json:"pool"`
	Rounds int             `json:"rounds"` // every program is repeated this many times
	Progs  [][]c16StressOp `json:"progs"`  // one program per goroutine
}

func c16GenStress(t *rapid.T) c16StressScenario {
	s := c16StressScenario{}
	maxTags := c16MaxTags
	if vt.Known(c16KnownTagOrder) {
		maxTags = 1 // the open finding's class is excluded by construction
	}
	s.Pool = c16GenPool(t, 1, 4, maxTags)
	s.Rounds = rapid.IntRange(1, vt.Scale(20, 60)).Draw(t, "rounds")
	g := rapid.SampledFrom([]int{8, 12, 16, 24, 32}[:vt.Scale(3, 5)]).Draw(t, "goroutines")
	hot := rapid.IntRange(0, len(s.Pool)-1).Draw(t, "hot") // most traffic on one parameter set
	for i := 0; i < g; i++ {
		n := rapid.IntRange(1, 12).Draw(t, "nops")
		prog := make([]c16StressOp, n)
		for j := range prog {
			p := hot
			if rapid.IntRange(0, 9).Draw(t, "spread") < 3 {
				p = rapid.IntRange(0, len(s.Pool)-1).Draw(t, "p")
			}
			prog[j] = c16StressOp{
				P:    p,
				Hold: rapid.IntRange(0, 2).Draw(t, "hold"),
				Fail: rapid.IntRange(0, 9).Draw(t, "fail") < 8,
				Seed: rapid.Uint32().Draw(t, "seed"),
			}
		}
		s.Progs = append(s.Progs, prog)
	}
	return s
}

type c16Ledger struct {
	mu     sync.Mutex
	out    map[string]int    // outstanding token -> goroutine
	owner  map[string]string // token -> key
	last   map[string]int    // token -> last event: 1 out, 2 returned, 3 consumed
	issues int
	reuses int
	bad    string
}

func (l *c16Ledger) issued(tok, key string, g int) {
	l.mu.Lock()
	defer l.mu.Unlock()
	l.issues++
	if l.bad != "" {
		return
	}
	if tok == "" {
		l.bad = fmt.Sprintf("empty client token for %s", key)
		return
	}
	if other, ok := l.out[tok]; ok {
		_ = other
		l.bad = fmt.Sprintf("two requests in flight with the same token (second one: %s)", key)
		return
	}
	if k, ok := l.owner[tok]; ok {
		if k != key {
			l.bad = fmt.Sprintf("a token first issued for %s was issued again for different parameters %s", k, key)
			return
		}
		if l.last[tok] == 2 {
			l.reuses++
		}
	}
	l.owner[tok] = key
	l.out[tok] = g
	l.last[tok] = 1
}

func (l *c16Ledger) resolving(tok string, fail bool) {
	l.mu.Lock()
	defer l.mu.Unlock()
	delete(l.out, tok)
	if fail {
		l.last[tok] = 2
	} else {
		l.last[tok] = 3
	}
}

func c16RunStress(c *vt.Ctx, s c16StressScenario) {
	c16Setup()
	gen := NewIdempotentKeyGenerator()
	led := &c16Ledger{out: map[string]int{}, owner: map[string]string{}, last: map[string]int{}}
	keys := make([]string, len(s.Pool))
	for i, p := range s.Pool {
		keys[i] = p.key()
	}
	c16PoolLabels(c, s.Pool)
	type held struct {
		tok  string
		rb   func()
		fail bool
		due  int
	}
	var wg sync.WaitGroup
	startGate := make(chan struct{})
	errs := make(chan string, len(s.Progs))
	for gi, prog := range s.Progs {
		wg.Add(1)
		go func(gi int, prog []c16StressOp) {
			defer wg.Done()
			<-startGate
			var hs []held
			resolve := func(h held) {
				led.resolving(h.tok, h.fail) // leaves the ledger BEFORE the token can be reissued
				if h.fail {
					h.rb()
				}
			}
			tick := 0
			for r := 0; r < s.Rounds; r++ {
				for _, op := range prog {
					pi := op.P % len(s.Pool)
					tok, rb, err := c16Issue(gen, s.Pool[pi], op.Seed+uint32(r))
					if err != nil {
						errs <- fmt.Sprintf("builder rejected %s: %v", keys[pi], err)
						return
					}
					led.issued(tok, keys[pi], gi)
					tick++
					hs = append(hs, held{tok: tok, rb: rb, fail: op.Fail, due: tick + op.Hold})
					kept := hs[:0]
					for _, h := range hs {
						if h.due <= tick {
							resolve(h)
						} else {
							kept = append(kept, h)
						}
					}
					hs = kept
				}
			}
			for _, h := range hs {
				h.fail = true
				resolve(h)
			}
		}(gi, prog)
	}
	close(startGate)
	fin := make(chan struct{})
	go func() { wg.Wait(); close(fin) }()
	select {
	case <-fin:
	case <-time.After(60 * time.Second):
		c.Inconclusive("stress goroutines did not finish in time")
	}
	select {
	case e := <-errs:
		c.Inconclusive(e)
	default:
	}
	if led.bad != "" {
		c.Fatalf("%s", led.bad)
	}
	if len(led.out) != 0 {
		c.Inconclusive("harness ledger: tokens outstanding at quiescence")
	}
	// quiescence: per parameter set, the tokens whose last event was a rollback
	want := map[string]map[string]bool{}
	for tok, ev := range led.last {
		if ev == 2 {
			k := led.owner[tok]
			if want[k] == nil {
				want[k] = map[string]bool{}
			}
			want[k][tok] = true
		}
	}
	nret := 0
	for pi, p := range s.Pool {
		w := want[keys[pi]]
		nret += len(w)
		for n := len(w); n > 0; n-- {
			tok, _, err := c16Issue(gen, p, uint32(n))
			if err != nil {
				c.Inconclusive(fmt.Sprintf("builder rejected %s: %v", keys[pi], err))
			}
			if !w[tok] {
				c.Trace("drain %s: %d returned token(s) left to collect, got %s (known token: %v)", keys[pi], n, tok, led.owner[tok] != "")
				c.Fatalf("token lost: tokens handed back for %s by failed attempts are still due at quiescence, but a new attempt carries a token that is not one of them", keys[pi])
			}
			delete(w, tok)
		}
	}
	c.Labelf("goroutines:%d", (len(s.Progs)/8)*8)
	if led.reuses > 0 {
		c.Label("fail->retry reuse")
	}
	if nret > 0 {
		c.Label("returned tokens at quiescence")
	}
	c.Trace("issues=%d reuses=%d returned-at-quiescence=%d", led.issues, led.reuses, nret)
	c.NonTrivial() // >= 8 goroutines over <= 4 parameter sets: equal parameters outstanding together
}

func TestVerifC16Stress(t *testing.T) {
	vt.Run(t, c16GenStress, c16RunStress)
}

// TestVerifC16StressRace is the same check under its own name for the unit built with
// -race (evidence is merged per test name).
func TestVerifC16StressRace(t *testing.T) {
	vt.Run(t, c16GenStress, c16RunStress)
}
