package client

import (
	"context"
	"encoding/json"
	"fmt"
	"testing"

	"github.com/aliyun/alibaba-cloud-sdk-go/services/ecs"
	"pgregory.net/rapid"

	"github.com/AliyunContainerService/terway/zz_verif/vt"
)

// C19 (client part): the instance limits terway derives from an instance-type
// description (getInstanceType, the three ways a caller obtains it, and the Limits
// helper methods every consumer uses) never exceed the description itself.
//
// Reference quantities (computed here from the raw vector, independent of limit.go):
//
//	slots     = max(EniQuantity-1, 0)                       attachable secondary interfaces
//	memberRef = trunk supported ? max(Total-EniQuantity, 0) : 0
//	maxMember = trunk supported ? max(Total-2, 0) : 0      (everything but eth0 and the trunk)
//	v4, v6, eri clamped at 0

type c19ITScenario struct {
	TypeID           string `json:"type_id"`
	EniQuantity      int    `json:"eni_quantity"`
	EniTotalQuantity int    `json:"eni_total_quantity"`
	V4               int    `json:"v4_per_eni"`
	V6               int    `json:"v6_per_eni"`
	Eri              int    `json:"eri_quantity"`
	Trunk            bool   `json:"trunk_supported"`
	Cards            int    `json:"network_cards"`
	// 0 getInstanceType, 1 GetLimitFromAnno (node annotation), 2 GetLimit (DescribeInstanceTypes)
	Route int `json:"route"`
	// number of unrelated instance types returned ahead of ours by DescribeInstanceTypes
	Noise int `json:"noise"`
}

func c19GenIT(t *rapid.T) c19ITScenario {
	s := c19ITScenario{TypeID: "ecs.c19.large"}
	s.EniQuantity = rapid.OneOf(rapid.IntRange(1, 4), rapid.IntRange(1, 32), rapid.IntRange(7, 9)).Draw(t, "eniQuantity")
	switch rapid.IntRange(0, 9).Draw(t, "totalClass") {
	case 0, 1: // no member interfaces at all
		s.EniTotalQuantity = s.EniQuantity
	case 2: // junk: total smaller than the attachable count (incl. 0 = field absent)
		s.EniTotalQuantity = rapid.IntRange(0, s.EniQuantity).Draw(t, "total")
	default:
		s.EniTotalQuantity = s.EniQuantity + rapid.IntRange(1, 120).Draw(t, "members")
	}
	if rapid.IntRange(0, 9).Draw(t, "v4Class") == 0 {
		s.V4 = rapid.IntRange(-1, 0).Draw(t, "v4junk")
	} else {
		s.V4 = rapid.IntRange(1, 50).Draw(t, "v4")
	}
	switch rapid.IntRange(0, 9).Draw(t, "v6Class") {
	case 0, 1, 2:
		s.V6 = 0
	case 3, 4, 5, 6:
		s.V6 = s.V4
	case 7:
		s.V6 = -1
	default:
		s.V6 = rapid.IntRange(1, 50).Draw(t, "v6")
	}
	if rapid.IntRange(0, 9).Draw(t, "eriClass") == 0 {
		s.Eri = -1
	} else {
		s.Eri = rapid.IntRange(0, 4).Draw(t, "eri")
	}
	s.Trunk = rapid.IntRange(0, 3).Draw(t, "trunk") > 0
	s.Cards = rapid.IntRange(0, 3).Draw(t, "cards")
	s.Route = rapid.IntRange(0, 2).Draw(t, "route")
	s.Noise = rapid.IntRange(0, 2).Draw(t, "noise")
	return s
}

func (s c19ITScenario) instanceType() ecs.InstanceType {
	it := ecs.InstanceType{
		InstanceTypeId:              s.TypeID,
		EniQuantity:                 s.EniQuantity,
		EniTotalQuantity:            s.EniTotalQuantity,
		EniPrivateIpAddressQuantity: s.V4,
		EniIpv6AddressQuantity:      s.V6,
		EriQuantity:                 s.Eri,
		EniTrunkSupported:           s.Trunk,
	}
	for i := 0; i < s.Cards; i++ {
		it.NetworkCards.NetworkCardInfo = append(it.NetworkCards.NetworkCardInfo, ecs.NetworkCardInfo{NetworkCardIndex: i})
	}
	return it
}

// c19ECS answers DescribeInstanceTypes only; every other ECS call would be a harness
// bug (nil embedded interface -> panic -> reported).
type c19ECS struct {
	ECS
	types []ecs.InstanceType
	calls int
}

func (e *c19ECS) DescribeInstanceTypes(_ context.Context, _ []string) ([]ecs.InstanceType, error) {
	e.calls++
	return e.types, nil
}

func c19Clamp(v int) int {
	if v < 0 {
		return 0
	}
	return v
}

func c19Min(a, b int) int {
	if a < b {
		return a
	}
	return b
}

func c19RunIT(c *vt.Ctx, s c19ITScenario) {
	it := s.instanceType()

	var l, cached *Limits
	switch s.Route {
	case 0:
		c.Label("route:getInstanceType")
		l = getInstanceType(&it)
	case 1:
		c.Label("route:annotation")
		raw, err := json.Marshal(it)
		if err != nil {
			c.Fatalf("marshal instance type: %v", err)
		}
		got, err := NewECSLimitProvider().GetLimitFromAnno(map[string]string{"alibabacloud.com/instance-type-info": string(raw)})
		if err != nil || got == nil {
			c.Fatalf("GetLimitFromAnno(%s) = %v, %v", raw, got, err)
		}
		l = got
	default:
		c.Label("route:describe")
		stub := &c19ECS{}
		for i := 0; i < s.Noise; i++ {
			// unrelated, much larger instance types ahead of ours: picking the wrong
			// entry would over-report
			stub.types = append(stub.types, ecs.InstanceType{
				InstanceTypeId: fmt.Sprintf("ecs.noise%d.huge", i), EniQuantity: 64, EniTotalQuantity: 512,
				EniPrivateIpAddressQuantity: 100, EniIpv6AddressQuantity: 100, EriQuantity: 8, EniTrunkSupported: true,
			})
		}
		stub.types = append(stub.types, it)
		p := NewECSLimitProvider() // fresh provider: no cache shared between cases
		got, err := p.GetLimit(stub, s.TypeID)
		if err != nil || got == nil {
			c.Fatalf("GetLimit = %v, %v", got, err)
		}
		again, err := p.GetLimit(stub, s.TypeID)
		if err != nil || again == nil {
			c.Fatalf("second GetLimit = %v, %v", again, err)
		}
		l, cached = got, again // the answer from the provider's cache is held to the same bounds
	}
	c.Trace("limits %+v", *l)

	slots := c19Clamp(s.EniQuantity - 1)
	v4, v6, eri := c19Clamp(s.V4), c19Clamp(s.V6), c19Clamp(s.Eri)
	memberRef, maxMember := 0, 0
	if s.Trunk {
		memberRef = c19Clamp(s.EniTotalQuantity - s.EniQuantity)
		maxMember = c19Clamp(s.EniTotalQuantity - 2)
	}

	// non-triviality: at least one feature the type does not have, or a junk field
	nt := false
	if memberRef == 0 {
		c.Label("no-trunk")
		nt = true
	}
	if v6 == 0 {
		c.Label("no-ipv6")
		nt = true
	} else if v6 != v4 {
		c.Label("ipv6-unequal")
		nt = true
	}
	if eri == 0 || s.EniQuantity <= 2 {
		c.Label("no-erdma")
		nt = true
	}
	if s.V4 < 0 || s.V6 < 0 || s.Eri < 0 || s.EniTotalQuantity < s.EniQuantity {
		c.Label("junk-field")
		nt = true
	}
	if s.EniQuantity >= 8 {
		c.Label("adapters>=8")
	}
	if s.EniQuantity == 1 {
		c.Label("primary-only")
	}
	if nt {
		c.NonTrivial()
	}

	check := func(l *Limits) {
		within := func(name string, got, hi int) {
			if got < 0 || got > hi {
				c.Fatalf("%s = %d, want within [0, %d] for instance type %+v", name, got, hi, s)
			}
		}
		// raw fields
		if l.Adapters > s.EniQuantity {
			c.Fatalf("Adapters = %d exceeds EniQuantity %d", l.Adapters, s.EniQuantity)
		}
		if l.TotalAdapters > c19Clamp(s.EniTotalQuantity) {
			c.Fatalf("TotalAdapters = %d exceeds EniTotalQuantity %d", l.TotalAdapters, s.EniTotalQuantity)
		}
		within("IPv4PerAdapter", l.IPv4PerAdapter, v4)
		within("IPv6PerAdapter", l.IPv6PerAdapter, v6)
		within("MemberAdapterLimit", l.MemberAdapterLimit, memberRef)
		within("MaxMemberAdapterLimit", l.MaxMemberAdapterLimit, maxMember)
		within("ERdmaAdapters", l.ERdmaAdapters, eri)

		// helper methods used by daemon and controllers
		within("ExclusiveENIPod()", l.ExclusiveENIPod(), slots)
		within("MultiIPPod()", l.MultiIPPod(), slots*v4)
		within("TrunkPod()", l.TrunkPod(), memberRef)
		within("MaximumTrunkPod()", l.MaximumTrunkPod(), maxMember)
		within("ERDMARes()", l.ERDMARes(), c19Min(eri, slots))
		if l.SupportIPv6() && v6 == 0 {
			c.Fatalf("SupportIPv6() = true for an instance type with %d IPv6 addresses per interface", s.V6)
		}
		if l.SupportIPv6() && l.SupportMultiIPIPv6() && v6 < v4 {
			c.Fatalf("multi-IP IPv6 reported as supported with %d IPv6 < %d IPv4 addresses per interface", s.V6, s.V4)
		}
		if l.InstanceTypeID != s.TypeID {
			c.Fatalf("limits are for instance type %q, asked for %q", l.InstanceTypeID, s.TypeID)
		}
	}
	check(l)
	if cached != nil {
		c.Trace("cached limits %+v", *cached)
		check(cached)
	}
	if l.ERDMARes() > 0 {
		c.Label("erdma-res>0")
	}
	if l.SupportIPv6() && l.SupportMultiIPIPv6() {
		c.Label("ipv6-multi-ip")
	}
	if l.TrunkPod() > 0 {
		c.Label("trunk")
	}
}

func TestVerifC19Limits(t *testing.T) {
	vt.Run(t, c19GenIT, c19RunIT)
}
