package client

// C16 — a retried cloud mutation reuses its idempotency token.
//
// Shared parts of the three harness levels (builders+generator machine, wire level,
// concurrency stress): the plain-data description of a logical parameter set, its
// canonical key (an independent projection of the fields that reach the cloud
// request), the builders that turn it into the real option values, and the reference
// model of the token ledger.

import (
	"fmt"
	"os"
	"sort"
	"strings"
	"sync"

	"github.com/go-logr/logr"
	"k8s.io/apimachinery/pkg/util/wait"
	"pgregory.net/rapid"
	logf "sigs.k8s.io/controller-runtime/pkg/log"

	"github.com/AliyunContainerService/terway/zz_verif/vt"
)

const c16KnownTagOrder = "C16-tag-order"

const (
	c16CreateECS  = iota // CreateNetworkInterfaceOptions.Finish / OpenAPI.CreateNetworkInterface
	c16CreateEFLO        // CreateNetworkInterfaceOptions.EFLO   / OpenAPI.CreateElasticNetworkInterfaceV2
	c16Assign4ECS        // AssignPrivateIPAddressOptions.Finish / OpenAPI.AssignPrivateIPAddress(2)
	c16AssignEFLO        // AssignPrivateIPAddressOptions.EFLO   / OpenAPI.AssignLeniPrivateIPAddress2
	c16Assign6ECS        // AssignIPv6AddressesOptions.Finish    / OpenAPI.AssignIpv6Addresses(2)
	c16Kinds
)

var c16KindNames = [...]string{"ecs-create", "eflo-create", "ecs-assign4", "eflo-assign", "ecs-assign6"}

type c16Tag struct {
	K string `json:"k"`
	V string `json:"v"`
}

// c16Param is one logical parameter set (plain data).
type c16Param struct {
	Kind     int      `json:"kind"`
	VSw      string   `json:"vsw,omitempty"`
	SGs      []string `json:"sgs,omitempty"`
	RG       string   `json:"rg,omitempty"`
	Trunk    bool     `json:"trunk,omitempty"`
	ERDMA    bool     `json:"erdma,omitempty"`
	IPCount  int      `json:"ipcount,omitempty"`
	IPv6     int      `json:"ipv6,omitempty"`
	Tags     []c16Tag `json:"tags,omitempty"`     // distinct keys
	TagsNil  bool     `json:"tags_nil,omitempty"` // no tags: nil map instead of an empty one
	Del      int      `json:"del,omitempty"`      // DeleteENIOnECSRelease: 0 unset, 1 false, 2 true
	SDC      int      `json:"sdc,omitempty"`      // SourceDestCheck:       0 unset, 1 false, 2 true
	ENI      string   `json:"eni,omitempty"`
	Instance string   `json:"instance,omitempty"`
	Zone     string   `json:"zone,omitempty"`
}

// key is the canonical identity of the cloud request the parameter set stands for:
// exactly the fields that reach the request of that kind, tags and security groups in
// sorted order.  Two parameter sets with equal keys are the same request for the cloud;
// with different keys they are "requests with different parameters".
func (p c16Param) key() string {
	var b strings.Builder
	b.WriteString(c16KindNames[p.Kind])
	switch p.Kind {
	case c16CreateECS:
		sgs := append([]string(nil), p.SGs...)
		sort.Strings(sgs)
		tags := append([]c16Tag(nil), p.Tags...)
		sort.Slice(tags, func(i, j int) bool { return tags[i].K < tags[j].K })
		sec := p.IPCount - 1
		if sec < 0 {
			sec = 0
		}
		v6 := p.IPv6
		if v6 < 0 {
			v6 = 0
		}
		fmt.Fprintf(&b, " vsw=%q trunk=%v erdma=%v sgs=%q rg=%q sec=%d v6=%d del=%d sdc=%d tags=[", p.VSw, p.Trunk, p.ERDMA, sgs, p.RG, sec, v6, p.Del, p.SDC)
		for _, t := range tags {
			fmt.Fprintf(&b, "%q=%q,", t.K, t.V)
		}
		b.WriteString("]")
	case c16CreateEFLO:
		fmt.Fprintf(&b, " vsw=%q sg=%q node=%q zone=%q", p.VSw, p.SGs[0], p.Instance, p.Zone)
	case c16Assign4ECS:
		fmt.Fprintf(&b, " eni=%q n=%d", p.ENI, p.IPCount)
	case c16AssignEFLO:
		fmt.Fprintf(&b, " eni=%q", p.ENI)
	case c16Assign6ECS:
		fmt.Fprintf(&b, " eni=%q n=%d", p.ENI, p.IPv6)
	}
	return b.String()
}

// knownClass: the class excluded while finding C16-tag-order is listed as open.
func (p c16Param) knownClass() bool {
	return p.Kind == c16CreateECS && len(p.Tags) >= 2
}

// ---------------------------------------------------------------- generators

var (
	c16VSws      = []string{"vsw-a", "vsw-b"}
	c16SGPool    = []string{"sg-1", "sg-2", "sg-3", "sg-4"}
	c16RGs       = []string{"", "rg-1"}
	c16ENIs      = []string{"eni-1", "eni-2"}
	c16Instances = []string{"", "i-1", "i-2"}
	c16Zones     = []string{"", "cn-x-a", "cn-x-b"}
	c16TagVals   = []string{"", "v", "w", "k00", "a,b", "creator=terway"}
)

// c16MaxTags: tag maps of 0..30 entries ("any number of tags"); sizes around the cloud
// API's limit of 20 tags per request are over-weighted.
const c16MaxTags = 30

func c16GenTags(t *rapid.T, maxTags int) []c16Tag {
	n := 0
	switch {
	case maxTags < 4:
		n = rapid.IntRange(0, maxTags).Draw(t, "ntags")
	case maxTags < 24:
		n = rapid.OneOf(
			rapid.IntRange(0, 1),
			rapid.IntRange(2, 3),
			rapid.IntRange(2, 3),
			rapid.IntRange(4, maxTags),
		).Draw(t, "ntags")
	default:
		n = rapid.OneOf(
			rapid.IntRange(0, 1),
			rapid.IntRange(2, 3),
			rapid.IntRange(2, 3),
			rapid.IntRange(4, 12),
			rapid.IntRange(19, 23),
			rapid.IntRange(13, maxTags),
		).Draw(t, "ntags")
	}
	if n == 0 {
		return nil
	}
	all := make([]int, c16MaxTags)
	for i := range all {
		all[i] = i
	}
	perm := rapid.Permutation(all).Draw(t, "tagkeys")
	tags := make([]c16Tag, 0, n)
	for _, i := range perm[:n] {
		tags = append(tags, c16Tag{K: fmt.Sprintf("k%02d", i), V: rapid.SampledFrom(c16TagVals).Draw(t, "tagval")})
	}
	return tags
}

func c16GenParam(t *rapid.T, maxTags int) c16Param {
	p := c16Param{}
	p.Kind = rapid.SampledFrom([]int{c16CreateECS, c16CreateECS, c16CreateECS, c16CreateEFLO, c16Assign4ECS, c16AssignEFLO, c16Assign6ECS}).Draw(t, "kind")
	p.VSw = rapid.SampledFrom(c16VSws).Draw(t, "vsw")
	nsg := rapid.IntRange(1, 3).Draw(t, "nsg")
	p.SGs = append([]string(nil), rapid.Permutation(c16SGPool).Draw(t, "sgs")[:nsg]...)
	p.RG = rapid.SampledFrom(c16RGs).Draw(t, "rg")
	p.Trunk = rapid.IntRange(0, 3).Draw(t, "trunk") == 3
	p.ERDMA = rapid.IntRange(0, 3).Draw(t, "erdma") == 3
	p.IPCount = rapid.IntRange(0, 4).Draw(t, "ipcount")
	p.IPv6 = rapid.IntRange(0, 3).Draw(t, "ipv6")
	p.Tags = c16GenTags(t, maxTags)
	p.TagsNil = rapid.Bool().Draw(t, "tagsnil")
	p.Del = rapid.IntRange(0, 2).Draw(t, "del")
	p.SDC = rapid.IntRange(0, 2).Draw(t, "sdc")
	p.ENI = rapid.SampledFrom(c16ENIs).Draw(t, "eni")
	p.Instance = rapid.SampledFrom(c16Instances).Draw(t, "instance")
	p.Zone = rapid.SampledFrom(c16Zones).Draw(t, "zone")
	return c16Normalise(p)
}

// c16Normalise makes the parameter set acceptable to the builder of its kind (the
// builders reject the rest with ErrInvalidArgs before any token is generated).
func c16Normalise(p c16Param) c16Param {
	switch p.Kind {
	case c16CreateEFLO:
		if p.IPCount > 1 {
			p.IPCount = 1
		}
	case c16Assign4ECS:
		if p.IPCount < 1 {
			p.IPCount = 1
		}
	case c16AssignEFLO:
		p.IPCount = 1
	case c16Assign6ECS:
		if p.IPv6 < 1 {
			p.IPv6 = 1
		}
	}
	if len(p.Tags) > 0 {
		p.TagsNil = false
	}
	return p
}

// c16Mutate returns a neighbour of p: one field changed (possibly the kind), so that
// pools contain parameter sets that agree in all fields but one.
func c16Mutate(t *rapid.T, p c16Param, maxTags int) c16Param {
	q := p
	q.SGs = append([]string(nil), p.SGs...)
	q.Tags = append([]c16Tag(nil), p.Tags...)
	other := func(cur string, dom []string, label string) string {
		v := rapid.SampledFrom(dom).Draw(t, label)
		if v == cur {
			for _, d := range dom {
				if d != cur {
					return d
				}
			}
		}
		return v
	}
	switch rapid.IntRange(0, 17).Draw(t, "mut") {
	case 0:
		q.VSw = other(q.VSw, c16VSws, "vsw")
	case 1: // replace one security group by one not in the list
		i := rapid.IntRange(0, len(q.SGs)-1).Draw(t, "sgi")
		for _, s := range c16SGPool {
			found := false
			for _, x := range q.SGs {
				if x == s {
					found = true
				}
			}
			if !found {
				q.SGs[i] = s
				break
			}
		}
	case 2: // add / drop a security group
		if len(q.SGs) > 1 && rapid.Bool().Draw(t, "drop") {
			q.SGs = q.SGs[:len(q.SGs)-1]
		} else {
			for _, s := range c16SGPool {
				found := false
				for _, x := range q.SGs {
					if x == s {
						found = true
					}
				}
				if !found {
					q.SGs = append(q.SGs, s)
					break
				}
			}
		}
	case 3:
		q.RG = other(q.RG, c16RGs, "rg")
	case 4:
		q.Trunk = !q.Trunk
	case 5:
		q.ERDMA = !q.ERDMA
	case 6:
		q.IPCount = (q.IPCount + rapid.IntRange(1, 3).Draw(t, "dip")) % 5
	case 7:
		q.IPv6 = (q.IPv6 + rapid.IntRange(1, 3).Draw(t, "dip6")) % 4
	case 8:
		q.Del = (q.Del + rapid.IntRange(1, 2).Draw(t, "ddel")) % 3
	case 9:
		q.SDC = (q.SDC + rapid.IntRange(1, 2).Draw(t, "dsdc")) % 3
	case 10:
		q.ENI = other(q.ENI, c16ENIs, "eni")
	case 11:
		q.Instance = other(q.Instance, c16Instances, "instance")
	case 12:
		q.Zone = other(q.Zone, c16Zones, "zone")
	case 13: // add a tag
		if len(q.Tags) < maxTags {
			for i := 0; i < c16MaxTags; i++ {
				k := fmt.Sprintf("k%02d", i)
				found := false
				for _, x := range q.Tags {
					if x.K == k {
						found = true
					}
				}
				if !found {
					q.Tags = append(q.Tags, c16Tag{K: k, V: rapid.SampledFrom(c16TagVals).Draw(t, "tagval")})
					break
				}
			}
		}
	case 14: // remove a tag
		if len(q.Tags) > 0 {
			i := rapid.IntRange(0, len(q.Tags)-1).Draw(t, "tagi")
			q.Tags = append(q.Tags[:i], q.Tags[i+1:]...)
		}
	case 15: // change a tag value
		if len(q.Tags) > 0 {
			i := rapid.IntRange(0, len(q.Tags)-1).Draw(t, "tagi")
			q.Tags[i].V = other(q.Tags[i].V, c16TagVals, "tagval")
		}
	case 16: // swap the values of two tags (same key set, same value multiset)
		if len(q.Tags) >= 2 {
			i := rapid.IntRange(0, len(q.Tags)-2).Draw(t, "tagi")
			q.Tags[i].V, q.Tags[i+1].V = q.Tags[i+1].V, q.Tags[i].V
		}
	case 17: // same fields, other kind of request
		q.Kind = (q.Kind + rapid.IntRange(1, c16Kinds-1).Draw(t, "dkind")) % c16Kinds
	}
	return c16Normalise(q)
}

// c16GenPool draws 1..maxN parameter sets with pairwise distinct canonical keys; about
// half of them are one-field neighbours of an earlier member.
func c16GenPool(t *rapid.T, minN, maxN, maxTags int) []c16Param {
	n := rapid.IntRange(minN, maxN).Draw(t, "npool")
	var pool []c16Param
	seen := map[string]bool{}
	for tries := 0; len(pool) < n && tries < 3*n+3; tries++ {
		var p c16Param
		if len(pool) > 0 && rapid.IntRange(0, 9).Draw(t, "neighbour") < 6 {
			p = c16Mutate(t, pool[rapid.IntRange(0, len(pool)-1).Draw(t, "of")], maxTags)
		} else {
			p = c16GenParam(t, maxTags)
		}
		if k := p.key(); !seen[k] {
			seen[k] = true
			pool = append(pool, p)
		}
	}
	return pool
}

// ---------------------------------------------------------------- builders

// c16Order is a permutation of 0..n-1 derived from seed (Fisher-Yates over an LCG):
// the insertion order of the tag map of one attempt.
func c16Order(n int, seed uint32) []int {
	o := make([]int, n)
	for i := range o {
		o[i] = i
	}
	s := uint64(seed)*2862933555777941757 + 3037000493
	for i := n - 1; i > 0; i-- {
		s = s*6364136223846793005 + 1442695040888963407
		j := int((s >> 33) % uint64(i+1))
		o[i], o[j] = o[j], o[i]
	}
	return o
}

func c16Tri(v int) *bool {
	switch v {
	case 1:
		b := false
		return &b
	case 2:
		b := true
		return &b
	}
	return nil
}

// c16NIO builds a fresh options value for one attempt; the tag map is a new map
// populated in the insertion order given by seed.
func c16NIO(p c16Param, seed uint32) *NetworkInterfaceOptions {
	o := &NetworkInterfaceOptions{
		Trunk:                 p.Trunk,
		ERDMA:                 p.ERDMA,
		VSwitchID:             p.VSw,
		SecurityGroupIDs:      append([]string(nil), p.SGs...),
		ResourceGroupID:       p.RG,
		IPCount:               p.IPCount,
		IPv6Count:             p.IPv6,
		InstanceID:            p.Instance,
		NetworkInterfaceID:    p.ENI,
		ZoneID:                p.Zone,
		DeleteENIOnECSRelease: c16Tri(p.Del),
		SourceDestCheck:       c16Tri(p.SDC),
	}
	if len(p.Tags) > 0 || !p.TagsNil {
		m := make(map[string]string)
		for _, i := range c16Order(len(p.Tags), seed) {
			m[p.Tags[i].K] = p.Tags[i].V
		}
		o.Tags = m
	}
	return o
}

// c16Caller stands for a long-lived caller of the client: like the node controller
// (pkg/controller/multi-ip/node: the package-level EniOptions map handed to
// CreateNetworkInterfaceV2 as the FIRST option of every create) it owns one leading
// "type" option value per (trunk, erdma) and passes that same object again and again.
type c16Caller struct {
	typeOpts map[[2]bool]*CreateNetworkInterfaceOptions
}

func c16NewCaller() *c16Caller {
	return &c16Caller{typeOpts: map[[2]bool]*CreateNetworkInterfaceOptions{}}
}

func (cl *c16Caller) typeOption(trunk, erdma bool) *CreateNetworkInterfaceOptions {
	k := [2]bool{trunk, erdma}
	o := cl.typeOpts[k]
	if o == nil {
		o = &CreateNetworkInterfaceOptions{NetworkInterfaceOptions: &NetworkInterfaceOptions{Trunk: trunk, ERDMA: erdma}}
		cl.typeOpts[k] = o
	}
	return o
}

// c16CreateOpts is the option list a caller passes for a create of p.  split=false: one
// fresh option value carrying everything (daemon, pod controller).  split=true: the
// caller's shared type option first, then a fresh value with all other parameters (node
// controller).  Both spell the same parameters.
func c16CreateOpts(cl *c16Caller, split bool, p c16Param, seed uint32, bo *wait.Backoff) []CreateNetworkInterfaceOption {
	nio := c16NIO(p, seed)
	if !split || cl == nil {
		return []CreateNetworkInterfaceOption{&CreateNetworkInterfaceOptions{NetworkInterfaceOptions: nio, Backoff: bo}}
	}
	nio.Trunk, nio.ERDMA = false, false
	return []CreateNetworkInterfaceOption{
		cl.typeOption(p.Trunk, p.ERDMA),
		&CreateNetworkInterfaceOptions{NetworkInterfaceOptions: nio, Backoff: bo},
	}
}

// c16Issue runs the real builder of p's kind the way the OpenAPI methods do (options
// applied onto an empty value, then Finish/EFLO) and returns the token it put into the
// request together with the rollback.
func c16Issue(g IdempotentKeyGen, p c16Param, seed uint32) (string, func(), error) {
	return c16IssueFrom(g, nil, false, p, seed)
}

// c16IssueFrom is c16Issue for a caller that may split a create into its shared leading
// option plus a fresh one.
func c16IssueFrom(g IdempotentKeyGen, cl *c16Caller, split bool, p c16Param, seed uint32) (string, func(), error) {
	nio := c16NIO(p, seed)
	switch p.Kind {
	case c16CreateECS, c16CreateEFLO:
		opt := &CreateNetworkInterfaceOptions{}
		for _, in := range c16CreateOpts(cl, split, p, seed, nil) {
			in.ApplyCreateNetworkInterface(opt)
		}
		if p.Kind == c16CreateECS {
			req, rb, err := opt.Finish(g)
			if err != nil {
				return "", nil, err
			}
			return req.ClientToken, rb, nil
		}
		req, rb, err := opt.EFLO(g)
		if err != nil {
			return "", nil, err
		}
		return req.ClientToken, rb, nil
	case c16Assign4ECS, c16AssignEFLO:
		in := &AssignPrivateIPAddressOptions{NetworkInterfaceOptions: nio}
		opt := &AssignPrivateIPAddressOptions{}
		in.ApplyAssignPrivateIPAddress(opt)
		if p.Kind == c16Assign4ECS {
			req, rb, err := opt.Finish(g)
			if err != nil {
				return "", nil, err
			}
			return req.ClientToken, rb, nil
		}
		req, rb, err := opt.EFLO(g)
		if err != nil {
			return "", nil, err
		}
		return req.ClientToken, rb, nil
	case c16Assign6ECS:
		in := &AssignIPv6AddressesOptions{NetworkInterfaceOptions: nio}
		opt := &AssignIPv6AddressesOptions{}
		in.ApplyAssignIPv6Addresses(opt)
		req, rb, err := opt.Finish(g)
		if err != nil {
			return "", nil, err
		}
		return req.ClientToken, rb, nil
	}
	return "", nil, fmt.Errorf("unknown kind %d", p.Kind)
}

// ---------------------------------------------------------------- reference model

// c16Model is the token ledger the property talks about: per canonical key the
// multiset of tokens handed back by failed attempts and not yet reused, the set of
// tokens in flight, and for every token ever seen the key it was first issued for.
type c16Model struct {
	known    bool                // finding C16-tag-order listed as open
	returned map[string][]string // key -> tokens put back and not reused yet
	owner    map[string]string   // token -> key it was first issued for
	active   map[string]int      // token -> id of the request in flight with it
	actKeys  map[string]int      // key -> number of requests in flight with that key
	orphaned map[string]bool     // keys that lost a returned token to the known class
	alias    map[string]string   // token -> T1, T2, ... in order of first appearance
	// key -> 1 if a call that was aborted on the client side before anything was sent may
	// have parked a token that never reached the wire (it found nothing parked to take)
	ghost map[string]int

	// facts for labels / non-triviality
	sawReuse, sawSameParamInflight, sawMultiReturned, sawKnown, sawTags2, sawReuseAfterSuccess bool
}

func c16NewModel() *c16Model {
	return &c16Model{
		known:    vt.Known(c16KnownTagOrder),
		returned: map[string][]string{},
		owner:    map[string]string{},
		active:   map[string]int{},
		actKeys:  map[string]int{},
		orphaned: map[string]bool{},
		alias:    map[string]string{},
		ghost:    map[string]int{},
	}
}

// aborted: a call for p returned an error without sending anything (its context was
// already over).  Whatever token its builder took is expected back in place; if nothing
// was parked for p it may have parked a token of its own that the wire never saw.
func (m *c16Model) aborted(p c16Param) {
	k := p.key()
	if len(m.returned[k]) == 0 && m.ghost[k] == 0 {
		m.ghost[k] = 1
	}
}

// name gives a token a stable short name (order of first appearance).  Violation
// messages use only these names: rapid shrinks only while the message of a failure is
// reproducible, and the tokens themselves are random UUIDs.
func (m *c16Model) name(tok string) string {
	if tok == "" {
		return "<empty>"
	}
	a, ok := m.alias[tok]
	if !ok {
		a = fmt.Sprintf("T%d", len(m.alias)+1)
		m.alias[tok] = a
	}
	return a
}

func (m *c16Model) names(toks []string) []string {
	out := make([]string, len(toks))
	for i, t := range toks {
		out[i] = m.name(t)
	}
	return out
}

// issue records that request id, standing for parameter set p, was observed carrying
// token tok, and returns a non-empty message if that violates the property.
func (m *c16Model) issue(p c16Param, tok string, id int) string {
	k := p.key()
	if p.Kind == c16CreateECS && len(p.Tags) >= 2 {
		m.sawTags2 = true
	}
	if tok == "" {
		return fmt.Sprintf("request %d (%s) carries an empty client token", id, k)
	}
	if other, ok := m.active[tok]; ok {
		return fmt.Sprintf("request %d (%s) carries token %s while request %d is still in flight with the same token", id, k, m.name(tok), other)
	}
	if m.actKeys[k] > 0 {
		m.sawSameParamInflight = true
	}
	ret := m.returned[k]
	if len(ret) >= 2 {
		m.sawMultiReturned = true
	}
	for i, r := range ret {
		if r == tok {
			m.returned[k] = append(append([]string(nil), ret[:i]...), ret[i+1:]...)
			m.sawReuse = true
			m.active[tok] = id
			m.actKeys[k]++
			return ""
		}
	}
	prev, seen := m.owner[tok]
	if seen && prev != k {
		return fmt.Sprintf("request %d (%s) carries token %s that was first issued for different parameters (%s)", id, k, m.name(tok), prev)
	}
	if !seen && m.ghost[k] > 0 {
		// the token an aborted-before-send call may have parked: never seen on the wire,
		// same parameters; as good as a fresh one
		m.ghost[k]--
	} else if len(ret) > 0 {
		if m.known && p.knownClass() && !seen {
			// open finding: >= 2 tags hash differently per attempt, the retry gets a fresh token
			m.sawKnown = true
			m.orphaned[k] = true
		} else {
			return fmt.Sprintf("retry of %s did not reuse a returned token: %d token(s) %v were handed back by failed attempts with these parameters, but request %d carries %s (seen before: %v)", k, len(ret), m.names(ret), id, m.name(tok), seen)
		}
	}
	if seen {
		// same parameters, token of an attempt that had succeeded: not demanded either
		// way by the statement (not in flight together, same parameters); recorded.
		m.sawReuseAfterSuccess = true
	}
	m.owner[tok] = k
	m.active[tok] = id
	m.actKeys[k]++
	return ""
}

// parked is the number of tokens handed back by failed attempts and not reused yet.
func (m *c16Model) parked() int {
	n := 0
	for _, r := range m.returned {
		n += len(r)
	}
	return n
}

// fail: the attempt holding tok failed and its rollback ran.
func (m *c16Model) fail(p c16Param, tok string) {
	k := p.key()
	delete(m.active, tok)
	m.actKeys[k]--
	m.returned[k] = append(m.returned[k], tok)
}

// succeed: the attempt holding tok succeeded; the token is consumed.
func (m *c16Model) succeed(p c16Param, tok string) {
	delete(m.active, tok)
	m.actKeys[p.key()]--
}

func (m *c16Model) labels(c *vt.Ctx) {
	if m.sawReuse {
		c.Label("fail->retry reuse")
	}
	if m.sawSameParamInflight {
		c.Label("same-params in flight together")
	}
	if m.sawMultiReturned {
		c.Label("returned multiset >= 2")
	}
	if m.sawTags2 {
		c.Label("ecs-create with >= 2 tags")
	}
	if m.sawKnown {
		c.Label("known:" + c16KnownTagOrder)
	}
	if m.sawReuseAfterSuccess {
		c.Label("token of a succeeded attempt issued again")
	}
	if m.sawReuse || m.sawSameParamInflight || m.sawTags2 {
		c.NonTrivial()
	}
}

func c16PoolLabels(c *vt.Ctx, pool []c16Param) {
	maxTags := 0
	for _, p := range pool {
		c.Label("kind:" + c16KindNames[p.Kind])
		if p.Kind == c16CreateECS && len(p.Tags) > maxTags {
			maxTags = len(p.Tags)
		}
	}
	switch {
	case maxTags > 20:
		c.Label("tags:21+")
	case maxTags >= 19:
		c.Label("tags:19-20")
	case maxTags >= 8:
		c.Label("tags:8-18")
	case maxTags >= 4:
		c.Label("tags:4-7")
	case maxTags >= 2:
		c.Label("tags:2-3")
	default:
		c.Label("tags:0-1")
	}
}

// c16NewGen builds the real key generator the documented way: the capacity of its cache
// comes from IDEMPOTENT_KEY_CACHE_SIZE, read when the generator is built (0 = unset,
// default capacity 500).
func c16NewGen(capacity int) *SimpleIdempotentKeyGenerator {
	c16Setup()
	if capacity <= 0 {
		return NewIdempotentKeyGenerator()
	}
	_ = os.Setenv("IDEMPOTENT_KEY_CACHE_SIZE", fmt.Sprint(capacity))
	defer os.Unsetenv("IDEMPOTENT_KEY_CACHE_SIZE")
	return NewIdempotentKeyGenerator()
}

var c16Once sync.Once

// c16Setup: process-wide, idempotent: silence the controller-runtime logger (it
// would otherwise buffer and warn) and make the generator's cache size the default.
func c16Setup() {
	c16Once.Do(func() {
		logf.SetLogger(logr.Discard())
		_ = os.Unsetenv("IDEMPOTENT_KEY_CACHE_SIZE")
	})
}
