package client

// C16 level 2: the real OpenAPI methods over real ecs / eflo SDK clients whose HTTP
// transport is a harness-owned gate.  Every HTTP attempt of a mutating action stops in
// the transport until the schedule answers it (success, a coded error, a transport
// error), so several logical requests are genuinely in flight at the same time and the
// interleaving is the scenario's, not the scheduler's.  The ClientToken is read off the
// wire (query string / form body).

import (
	"bytes"
	"context"
	"errors"
	"fmt"
	"io"
	"net/http"
	"net/url"
	"sync"
	"testing"
	"time"

	"github.com/aliyun/alibaba-cloud-sdk-go/services/ecs"
	"github.com/aliyun/alibaba-cloud-sdk-go/services/eflo"
	"github.com/aliyun/alibaba-cloud-sdk-go/services/vpc"
	"go.opentelemetry.io/otel"
	"golang.org/x/time/rate"
	"k8s.io/apimachinery/pkg/util/wait"
	"pgregory.net/rapid"

	"github.com/AliyunContainerService/terway/zz_verif/vt"
)

// outcomes of one HTTP attempt
const (
	c16OutOK = iota
	c16OutThrottling
	c16OutInternalError
	c16OutConflict
	c16OutIPNotEnough
	c16OutQuota
	c16OutForbidden
	c16OutTransport
	c16OutGarbage
	c16OutEfloCode
	c16Outs
)

var c16OutNames = [...]string{"ok", "Throttling", "InternalError", "Operation.Conflict", "InvalidVSwitchId.IpNotEnough",
	"QuotaExceeded.PrivateIpAddress", "Forbidden.RAM", "transport-error", "garbage-body", "eflo-code-1013"}

type c16Attempt struct {
	action string
	token  string
	form   url.Values
	reply  chan int
}

type c16Transport struct {
	arrive chan *c16Attempt
	done   chan struct{}
	mu     sync.Mutex
	serial int
}

func (t *c16Transport) next() int {
	t.mu.Lock()
	defer t.mu.Unlock()
	t.serial++
	return t.serial
}

func c16Resp(r *http.Request, code int, body string) *http.Response {
	return &http.Response{
		StatusCode: code, Status: fmt.Sprintf("%d %s", code, http.StatusText(code)),
		Proto: "HTTP/1.1", ProtoMajor: 1, ProtoMinor: 1,
		Header:  http.Header{"Content-Type": []string{"application/json"}},
		Body:    io.NopCloser(bytes.NewBufferString(body)),
		Request: r, ContentLength: int64(len(body)),
	}
}

func (t *c16Transport) RoundTrip(r *http.Request) (*http.Response, error) {
	form := r.URL.Query()
	if r.Body != nil {
		b, _ := io.ReadAll(r.Body)
		_ = r.Body.Close()
		if vals, err := url.ParseQuery(string(b)); err == nil {
			for k, v := range vals {
				form[k] = append(form[k], v...)
			}
		}
	}
	action := form.Get("Action")
	n := t.next()
	if action == "ListLeniPrivateIpAddresses" {
		// read-only follow-up of AssignLeniPrivateIPAddress2: answered at once
		return c16Resp(r, 200, fmt.Sprintf(`{"RequestId":"req-%d","Code":0,"Message":"","Content":{"Data":[{"ElasticNetworkInterfaceId":%q,"IpName":%q,"Status":"Available","PrivateIpAddress":"10.1.0.%d"}]}}`,
			n, form.Get("ElasticNetworkInterfaceId"), form.Get("IpName"), n%250+1)), nil
	}
	a := &c16Attempt{action: action, token: form.Get("ClientToken"), form: form, reply: make(chan int, 1)}
	select {
	case t.arrive <- a:
	case <-t.done:
		return nil, errors.New("c16 harness: case over")
	}
	var out int
	select {
	case out = <-a.reply:
	case <-t.done:
		return nil, errors.New("c16 harness: case over")
	}
	coded := func(status int, code string) (*http.Response, error) {
		return c16Resp(r, status, fmt.Sprintf(`{"RequestId":"req-%d","HostId":"sim","Code":%q,"Message":"simulated %s"}`, n, code, code)), nil
	}
	switch out {
	case c16OutThrottling:
		return coded(400, "Throttling")
	case c16OutInternalError:
		return coded(500, "InternalError")
	case c16OutConflict:
		return coded(409, "Operation.Conflict")
	case c16OutIPNotEnough:
		return coded(403, "InvalidVSwitchId.IpNotEnough")
	case c16OutQuota:
		return coded(403, "QuotaExceeded.PrivateIpAddress")
	case c16OutForbidden:
		return coded(403, "Forbidden.RAM")
	case c16OutTransport:
		return nil, errors.New("simulated connection reset")
	case c16OutGarbage:
		return c16Resp(r, 200, `<html>gateway</html>`), nil
	case c16OutEfloCode:
		if action == "CreateElasticNetworkInterface" || action == "AssignLeniPrivateIpAddress" {
			return c16Resp(r, 200, fmt.Sprintf(`{"RequestId":"req-%d","Code":1013,"Message":"quota","Content":{}}`, n)), nil
		}
		return coded(400, "InvalidParameter")
	}
	switch action {
	case "CreateNetworkInterface":
		return c16Resp(r, 200, fmt.Sprintf(`{"RequestId":"req-%d","NetworkInterfaceId":"eni-sim-%d","Type":"Secondary","Status":"Available","PrivateIpAddress":"10.0.0.%d"}`, n, n, n%250+1)), nil
	case "AssignPrivateIpAddresses":
		return c16Resp(r, 200, fmt.Sprintf(`{"RequestId":"req-%d","AssignedPrivateIpAddressesSet":{"NetworkInterfaceId":%q,"PrivateIpSet":{"PrivateIpAddress":["10.0.1.%d"]}}}`, n, form.Get("NetworkInterfaceId"), n%250+1)), nil
	case "AssignIpv6Addresses":
		return c16Resp(r, 200, fmt.Sprintf(`{"RequestId":"req-%d","NetworkInterfaceId":%q,"Ipv6Sets":{"Ipv6Address":["fd00::%x"]}}`, n, form.Get("NetworkInterfaceId"), n+1)), nil
	case "CreateElasticNetworkInterface":
		return c16Resp(r, 200, fmt.Sprintf(`{"RequestId":"req-%d","Code":0,"Message":"","Content":{"ElasticNetworkInterfaceId":"leni-sim-%d","NodeId":%q}}`, n, n, form.Get("NodeId"))), nil
	case "AssignLeniPrivateIpAddress":
		return c16Resp(r, 200, fmt.Sprintf(`{"RequestId":"req-%d","Code":0,"Message":"","Content":{"ElasticNetworkInterfaceId":%q,"IpName":"ip-sim-%d"}}`, n, form.Get("ElasticNetworkInterfaceId"), n)), nil
	}
	return coded(400, "UnsupportedOperation")
}

type c16ClientSet struct {
	e *ecs.Client
	f *eflo.Client
}

func (c *c16ClientSet) ECS() *ecs.Client   { return c.e }
func (c *c16ClientSet) VPC() *vpc.Client   { return nil }
func (c *c16ClientSet) EFLO() *eflo.Client { return c.f }

// c16NewAPI: a real OpenAPI with a fresh real key generator, real SDK clients over the
// gate transport, an unlimited rate limiter.
func c16NewAPI(tr http.RoundTripper) (*OpenAPI, error) {
	ec, err := ecs.NewClientWithAccessKey("cn-sim", "ak", "sk")
	if err != nil {
		return nil, err
	}
	ec.SetTransport(tr)
	ec.Domain = "ecs.sim.local"
	fc, err := eflo.NewClientWithAccessKey("cn-sim", "ak", "sk")
	if err != nil {
		return nil, err
	}
	fc.SetTransport(tr)
	fc.Domain = "eflo.sim.local"
	return &OpenAPI{
		ClientSet:        &c16ClientSet{e: ec, f: fc},
		IdempotentKeyGen: NewIdempotentKeyGenerator(),
		RateLimiter:      &RateLimiter{store: map[string]*rate.Limiter{"": rate.NewLimiter(rate.Inf, 1)}},
		Tracer:           otel.Tracer("c16"),
	}, nil
}

// c16Call invokes the OpenAPI method for p with freshly built options.  variant selects
// the "2" flavour of the assign methods and, for creates, the backend-dispatching
// CreateNetworkInterfaceV2 entry point the controllers use; split makes a create pass
// the caller's shared leading option plus a fresh one.
func c16Call(ctx context.Context, api *OpenAPI, cl *c16Caller, split bool, p c16Param, variant int, steps int, seed uint32) error {
	nio := c16NIO(p, seed)
	bo := &wait.Backoff{Steps: steps} // zero Duration: retries are immediate
	var err error
	switch p.Kind {
	case c16CreateECS:
		opts := c16CreateOpts(cl, split, p, seed, bo)
		if variant%2 == 0 {
			_, err = api.CreateNetworkInterface(ctx, opts...)
		} else {
			_, err = api.CreateNetworkInterfaceV2(SetBackendAPI(ctx, BackendAPIECS), opts...)
		}
	case c16CreateEFLO:
		opts := c16CreateOpts(cl, split, p, seed, bo)
		if variant%2 == 0 {
			_, err = api.CreateElasticNetworkInterfaceV2(ctx, opts...)
		} else {
			_, err = api.CreateNetworkInterfaceV2(SetBackendAPI(ctx, BackendAPIEFLO), opts...)
		}
	case c16Assign4ECS:
		if variant%2 == 0 {
			_, err = api.AssignPrivateIPAddress(ctx, &AssignPrivateIPAddressOptions{NetworkInterfaceOptions: nio, Backoff: bo})
		} else {
			_, err = api.AssignPrivateIPAddress2(ctx, &AssignPrivateIPAddressOptions{NetworkInterfaceOptions: nio, Backoff: bo})
		}
	case c16AssignEFLO:
		_, err = api.AssignLeniPrivateIPAddress2(ctx, &AssignPrivateIPAddressOptions{NetworkInterfaceOptions: nio, Backoff: bo})
	case c16Assign6ECS:
		if variant%2 == 0 {
			_, err = api.AssignIpv6Addresses(ctx, &AssignIPv6AddressesOptions{NetworkInterfaceOptions: nio, Backoff: bo})
		} else {
			_, err = api.AssignIpv6Addresses2(ctx, &AssignIPv6AddressesOptions{NetworkInterfaceOptions: nio, Backoff: bo})
		}
	}
	return err
}

var c16Actions = [...]string{"CreateNetworkInterface", "CreateElasticNetworkInterface", "AssignPrivateIpAddresses", "AssignLeniPrivateIpAddress", "AssignIpv6Addresses"}

type c16WireReq struct {
	P       int `json:"p"`       // index into the pool
	Variant int `json:"variant"` // 0: AssignPrivateIPAddress/AssignIpv6Addresses/Create*, 1: the "2" flavour / CreateNetworkInterfaceV2
	Steps   int `json:"steps"`   // Backoff.Steps of every call of this logical request
}

type c16WireStep struct {
	J    int    `json:"j"`              // k mod (logical requests not finished)
	Out  int    `json:"out"`            // outcome delivered if the request waits in the transport
	Seed uint32 `json:"seed,omitempty"` // tag insertion order if a new call is started
	// attributes of the call if this step starts one
	Split bool `json:"split,omitempty"` // create: shared leading option + fresh option
	Ctx   int  `json:"ctx,omitempty"`   // 0 live context, 1 already cancelled, 2 deadline already passed
	// if this step answers a waiting attempt: cancel the call's context first
	Cancel bool `json:"cancel,omitempty"`
}

const (
	c16CtxLive = iota
	c16CtxCancelled
	c16CtxExpired
)

type c16WireScenario struct {
	Pool  []c16Param    `json:"pool"`
	Reqs  []c16WireReq  `json:"reqs"`
	Steps []c16WireStep `json:"steps"`
}

func c16GenWire(t *rapid.T) c16WireScenario {
	s := c16WireScenario{}
	s.Pool = c16GenPool(t, 1, 3, c16MaxTags)
	nr := rapid.IntRange(1, vt.Scale(5, 8)).Draw(t, "nreq")
	for i := 0; i < nr; i++ {
		s.Reqs = append(s.Reqs, c16WireReq{
			P:       rapid.IntRange(0, len(s.Pool)-1).Draw(t, "p"),
			Variant: rapid.IntRange(0, 1).Draw(t, "variant"),
			Steps:   rapid.IntRange(1, 4).Draw(t, "steps"),
		})
	}
	ns := rapid.IntRange(2, vt.Scale(40, 100)).Draw(t, "nsteps")
	for i := 0; i < ns; i++ {
		st := c16WireStep{J: rapid.IntRange(0, 7).Draw(t, "j"), Seed: rapid.Uint32().Draw(t, "seed")}
		st.Split = rapid.IntRange(0, 2).Draw(t, "split") == 2
		if rapid.IntRange(0, 5).Draw(t, "deadctx") == 5 {
			st.Ctx = rapid.IntRange(c16CtxCancelled, c16CtxExpired).Draw(t, "ctx")
		}
		st.Cancel = rapid.IntRange(0, 7).Draw(t, "cancel") == 7
		if rapid.IntRange(0, 9).Draw(t, "fails") < 7 {
			st.Out = rapid.IntRange(1, c16Outs-1).Draw(t, "out")
		}
		s.Steps = append(s.Steps, st)
	}
	return s
}

const (
	c16Idle    = iota // no call running: not started, or the last call returned an error
	c16Blocked        // an HTTP attempt of the running call waits in the transport
	c16Done           // a call returned success
)

type c16Logical struct {
	req      c16WireReq
	state    int
	tok      string      // token of the running call
	cur      *c16Attempt // attempt waiting in the transport
	ret      chan error  // result of the running call
	dead     bool        // the running call was started with a context that is already over
	cancel   func()      // cancels the running call's context
	calls    int         // calls made so far
	attempts int         // HTTP attempts of the running call
}

const c16WaitLimit = 20 * time.Second

func c16RunWire(c *vt.Ctx, s c16WireScenario) {
	c16Setup()
	tr := &c16Transport{arrive: make(chan *c16Attempt), done: make(chan struct{})}
	api, err := c16NewAPI(tr)
	if err != nil {
		c.Inconclusive("sdk client: " + err.Error())
	}
	m := c16NewModel()
	c16PoolLabels(c, s.Pool)
	var wg sync.WaitGroup
	defer func() {
		close(tr.done)
		fin := make(chan struct{})
		go func() { wg.Wait(); close(fin) }()
		select {
		case <-fin:
		case <-time.After(c16WaitLimit):
		}
	}()
	cl := c16NewCaller()
	ctx, cancel := context.WithCancel(context.Background())
	defer cancel()

	reqs := make([]*c16Logical, len(s.Reqs))
	for i, r := range s.Reqs {
		reqs[i] = &c16Logical{req: r}
	}
	sawInternalRetry, sawOverlap, sawCallerRetry, sawSplit, sawAborted, sawAbortedRetry, sawMidCancel := false, false, false, false, false, false, false

	// await: the one goroutine that may run (request id) either reaches the transport
	// again or its call returns.
	await := func(id int, l *c16Logical) {
		p := s.Pool[l.req.P%len(s.Pool)]
		select {
		case a := <-tr.arrive:
			if a.action != c16Actions[p.Kind] {
				c.Inconclusive(fmt.Sprintf("unexpected action %q on the wire for %s", a.action, c16KindNames[p.Kind]))
			}
			l.attempts++
			if l.attempts == 1 {
				l.tok = a.token
				c.Trace("request %d call %d attempt 1: %s token %s = %s", id, l.calls, a.action, m.name(a.token), a.token)
				if msg := m.issue(p, a.token, id); msg != "" {
					c.Fatalf("%s", msg)
				}
				if len(m.active) >= 2 {
					sawOverlap = true
				}
			} else {
				sawInternalRetry = true
				c.Trace("request %d call %d attempt %d: token %s", id, l.calls, l.attempts, m.name(a.token))
				if a.token != l.tok {
					c.Fatalf("request %d (%s): attempt %d of one call carries token %s, attempt 1 carried %s", id, p.key(), l.attempts, m.name(a.token), m.name(l.tok))
				}
			}
			l.cur = a
			l.state = c16Blocked
		case err := <-l.ret:
			l.cur = nil
			if l.attempts == 0 {
				if l.dead && err != nil {
					// aborted on the client side before anything was sent: nothing to observe
					// now; whatever token the builder took for it must be back in place, which
					// the next attempts with these parameters show.
					c.Trace("request %d call %d aborted before send: %v", id, l.calls, err)
					sawAborted = true
					if len(m.returned[p.key()]) > 0 {
						sawAbortedRetry = true
					}
					m.aborted(p)
					l.state = c16Idle
					return
				}
				c.Inconclusive(fmt.Sprintf("%s call returned (%v) without reaching the wire", c16KindNames[p.Kind], err))
			}
			if err != nil {
				c.Trace("request %d call %d failed (token %s handed back): %v", id, l.calls, m.name(l.tok), err)
				m.fail(p, l.tok)
				l.state = c16Idle
			} else {
				c.Trace("request %d call %d succeeded", id, l.calls)
				m.succeed(p, l.tok)
				l.state = c16Done
			}
		case <-time.After(c16WaitLimit):
			c.Inconclusive("call neither reached the transport nor returned in time")
		}
	}
	start := func(id int, l *c16Logical, seed uint32, split bool, ctxKind int) {
		p := s.Pool[l.req.P%len(s.Pool)]
		if l.calls > 0 {
			sawCallerRetry = true
		}
		if split && p.Kind <= c16CreateEFLO {
			sawSplit = true
		}
		l.calls++
		l.attempts = 0
		l.ret = make(chan error, 1)
		ret := l.ret
		var cctx context.Context
		switch ctxKind {
		case c16CtxExpired:
			cctx, l.cancel = context.WithDeadline(ctx, time.Unix(0, 0))
		default:
			cctx, l.cancel = context.WithCancel(ctx)
		}
		l.dead = ctxKind != c16CtxLive
		if ctxKind == c16CtxCancelled {
			l.cancel()
		}
		if l.dead {
			c.Trace("request %d call %d starts with a context that is already over (%v)", id, l.calls, cctx.Err())
		}
		wg.Add(1)
		go func() {
			defer wg.Done()
			ret <- c16Call(cctx, api, cl, split, p, l.req.Variant, l.req.Steps, seed)
		}()
		await(id, l)
	}
	answer := func(id int, l *c16Logical, out int, cancelFirst bool) {
		if cancelFirst {
			c.Trace("request %d call %d: context cancelled while attempt %d waits", id, l.calls, l.attempts)
			sawMidCancel = true
			l.cancel()
		}
		c.Trace("request %d call %d attempt %d <- %s", id, l.calls, l.attempts, c16OutNames[out])
		l.cur.reply <- out
		l.cur = nil
		await(id, l)
	}

	for _, st := range s.Steps {
		var live []int
		for i, l := range reqs {
			if l.state != c16Done {
				live = append(live, i)
			}
		}
		if len(live) == 0 {
			break
		}
		id := live[st.J%len(live)]
		l := reqs[id]
		if l.state == c16Idle {
			start(id, l, st.Seed, st.Split, st.Ctx)
		} else {
			answer(id, l, st.Out%c16Outs, st.Cancel)
		}
	}
	// drain: every logical request is driven to success
	for id, l := range reqs {
		for guard := 0; l.state != c16Done; guard++ {
			if guard > 8 {
				c.Inconclusive("a request does not finish although every attempt is answered with success")
			}
			if l.state == c16Idle {
				start(id, l, uint32(id), id%2 == 1, c16CtxLive)
			} else {
				answer(id, l, c16OutOK, false)
			}
		}
	}
	if len(m.active) != 0 {
		c.Inconclusive("harness model: tokens still in flight after all calls returned")
	}
	if sawInternalRetry {
		c.Label("internal retry (same call, >= 2 attempts)")
	}
	if sawCallerRetry {
		c.Label("caller retry (new call after error)")
	}
	if sawOverlap {
		c.Label("calls overlapping on the wire")
	}
	if sawSplit {
		c.Label("create from shared leading option + fresh option")
	}
	if sawAborted {
		c.Label("call aborted before send (context already over)")
	}
	if sawAbortedRetry {
		c.Label("retry aborted before send while a failed attempt's token is parked")
	}
	if sawMidCancel {
		c.Label("context cancelled mid-call")
	}
	m.labels(c)
}

func TestVerifC16Wire(t *testing.T) {
	vt.Run(t, c16GenWire, c16RunWire)
}
