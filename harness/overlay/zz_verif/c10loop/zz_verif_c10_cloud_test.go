// Package c10loop is the closed-loop harness of properties C10 and C11: the real pod
// controller (pkg/controller/pod) and the real PodENI controller
// (pkg/controller/pod-eni) stepped in drawn order over one controller-runtime fake
// client and a small ECS simulator.
package c10loop

// Cloud simulator for the ECS-side interface the two controllers use
// (register.Interface): interfaces with type/status/attachment/tags/creation time,
// call-time monitors, a per-step fault plan keyed by (call kind, slot) so that it does
// not depend on goroutine arrival order, and a one-shot "mid" hook that runs another
// history action inside a cloud call (true interleaving of the two controllers).

import (
	"context"
	"fmt"
	"net/netip"
	"strconv"
	"strings"
	"sync"
	"time"

	"github.com/aliyun/alibaba-cloud-sdk-go/services/ecs"
	"github.com/aliyun/alibaba-cloud-sdk-go/services/vpc"
	"k8s.io/apimachinery/pkg/util/wait"

	aliyunClient "github.com/AliyunContainerService/terway/pkg/aliyun/client"
	apiErr "github.com/AliyunContainerService/terway/pkg/aliyun/client/errors"
	register "github.com/AliyunContainerService/terway/pkg/controller"
)

const (
	c10ClusterID = "c-ours"
	c10VPC       = "vpc-ours"
	c10VSw       = "vsw-a"
	c10Zone      = "cn-hangzhou-k"
	c10Region    = "cn-hangzhou"
	c10Layout    = "2006-01-02T15:04:05Z" // the layout gcENIs parses CreationTime with
)

// cloud fault bits of one step: "fail every call of this kind and slot in this step"
const (
	c10CFCreate0 = 1 << iota
	c10CFCreate1
	c10CFAttach0
	c10CFAttach1
	c10CFDetach0
	c10CFDetach1
	c10CFDelete0
	c10CFDelete1
	c10CFDescribe
	c10CFVSwitch
	c10CFBits = 10
)

func c10CFBit(kind string, slot int) uint16 {
	if slot < 0 || slot > 1 {
		return 0
	}
	switch kind {
	case "Create":
		return c10CFCreate0 << slot
	case "Attach":
		return c10CFAttach0 << slot
	case "Detach":
		return c10CFDetach0 << slot
	case "Delete":
		return c10CFDelete0 << slot
	}
	return 0
}

type c10ENI struct {
	ID, MAC, Type, Status, Instance, Trunk, VSw, Zone, IPv4, IPv6, RG string
	SG                                                                []string
	Tags                                                              []ecs.Tag
	Created                                                           string // exactly as served to the code
	DeviceIndex                                                       int
	// DeleteOnRelease: ECS deletes the interface together with the instance it is attached to when
	// that instance is released (option DeleteENIOnECSRelease of the create call; default true)
	DeleteOnRelease bool
	ByCtl           bool // created through CreateNetworkInterface by the code under test
	CreatedStep     int  // harness step in which it was created
	Slot            int
}

type c10Call struct {
	Step         int
	Kind, ENI    string
	Slot         int
	Injected     bool
	Err          string
	Unreferenced bool
}

type c10Cloud struct {
	register.Interface // unimplemented methods panic (= the code called something the model does not know)

	mu      sync.Mutex
	enis    map[string]*c10ENI
	order   []string
	slotSeq [2]int
	ipSeq   int
	dual    bool
	// creation time reported for interfaces created by the code: now - createAge
	createAge time.Duration

	step     int // harness step index (trace/attribution)
	serial   int // bumped at every step and around every mid action
	fail     uint16
	calls    []c10Call
	done0    map[string]chan struct{}
	closed0  map[string]bool
	orderTmo bool

	// "the n-th Delete/Detach call of the history fails" (1-based), cleared before settling
	nthFail map[string]bool
	kindSeq map[string]int

	// monitor, called at call time (before fault and effect) for Detach and Delete
	onPull func(kind, eni string)
	// one-shot action executed inside the first slot-0 mutating call of the step
	mid func()

	// bookkeeping for oracle (4)
	deleteInjected map[string]bool // ENI id -> a Delete for it was failed by injection
	deleteInjStep  map[int]bool    // step -> some Delete was failed by injection
	deleteTried    map[string]bool
	mutations      int // effects applied (quiescence detection)
}

func c10NewCloud(dual bool, createAge time.Duration) *c10Cloud {
	return &c10Cloud{
		enis: map[string]*c10ENI{}, dual: dual, createAge: createAge,
		done0: map[string]chan struct{}{}, closed0: map[string]bool{},
		nthFail: map[string]bool{}, kindSeq: map[string]int{},
		deleteInjected: map[string]bool{}, deleteInjStep: map[int]bool{}, deleteTried: map[string]bool{},
	}
}

func (c *c10Cloud) beginStep(step int, fail uint16, mid func()) {
	c.mu.Lock()
	defer c.mu.Unlock()
	c.step, c.fail, c.mid = step, fail, mid
	c.serial++
}

func (c *c10Cloud) bumpSerial() {
	c.mu.Lock()
	c.serial++
	c.mu.Unlock()
}

// seed adds an interface that exists before the history starts.
func (c *c10Cloud) seed(e *c10ENI) {
	c.mu.Lock()
	defer c.mu.Unlock()
	cp := *e
	c.enis[e.ID] = &cp
	c.order = append(c.order, e.ID)
}

func (c *c10Cloud) get(id string) (c10ENI, bool) {
	c.mu.Lock()
	defer c.mu.Unlock()
	e, ok := c.enis[id]
	if !ok {
		return c10ENI{}, false
	}
	return *e, true
}

func (c *c10Cloud) all() []c10ENI {
	c.mu.Lock()
	defer c.mu.Unlock()
	var out []c10ENI
	for _, id := range c.order {
		if e, ok := c.enis[id]; ok {
			out = append(out, *e)
		}
	}
	return out
}

func (c *c10Cloud) slotOf(id string) int {
	c.mu.Lock()
	defer c.mu.Unlock()
	if e, ok := c.enis[id]; ok {
		return e.Slot
	}
	return -1
}

func (e *c10ENI) view() *aliyunClient.NetworkInterface {
	n := &aliyunClient.NetworkInterface{
		Status: e.Status, MacAddress: e.MAC, NetworkInterfaceID: e.ID, VPCID: c10VPC, VSwitchID: e.VSw,
		PrivateIPAddress: e.IPv4, ZoneID: e.Zone, SecurityGroupIDs: append([]string(nil), e.SG...),
		ResourceGroupID: e.RG, Tags: append([]ecs.Tag(nil), e.Tags...), Type: e.Type, InstanceID: e.Instance,
		TrunkNetworkInterfaceID: e.Trunk, NetworkInterfaceTrafficMode: aliyunClient.ENITrafficModeStandard,
		DeviceIndex: e.DeviceIndex, CreationTime: e.Created,
	}
	if e.IPv4 != "" {
		n.PrivateIPSets = []aliyunClient.IPSet{{Primary: true, IPAddress: e.IPv4}}
	}
	if e.IPv6 != "" {
		n.IPv6Set = []aliyunClient.IPSet{{IPAddress: e.IPv6}}
	}
	return n
}

// enter is the common prologue of a mutating call: deterministic ordering of the two
// concurrent per-allocation calls (slot 1 waits for slot 0 of the same kind), monitor,
// mid action, fault decision. It returns the release function for slot 0.
func (c *c10Cloud) enter(kind, eni string, slot int) (injected bool, leave func()) {
	c.mu.Lock()
	key := fmt.Sprintf("%d/%s", c.serial, kind)
	ch := c.done0[key]
	if ch == nil && (kind == "Create" || kind == "Attach") {
		ch = make(chan struct{})
		c.done0[key] = ch
	}
	c.mu.Unlock()
	leave = func() {}
	if kind == "Create" || kind == "Attach" {
		if slot == 1 {
			select {
			case <-ch:
			case <-time.After(5 * time.Second):
				c.mu.Lock()
				c.orderTmo = true
				c.mu.Unlock()
			}
		} else if slot == 0 {
			leave = func() {
				c.mu.Lock()
				defer c.mu.Unlock()
				if !c.closed0[key] {
					c.closed0[key] = true
					close(ch)
				}
			}
		}
	}
	if (kind == "Detach" || kind == "Delete") && c.onPull != nil {
		c.onPull(kind, eni)
	}
	var mid func()
	c.mu.Lock()
	if slot == 0 && c.mid != nil {
		mid, c.mid = c.mid, nil
	}
	c.mu.Unlock()
	if mid != nil {
		c.bumpSerial()
		mid()
		c.bumpSerial()
	}
	c.mu.Lock()
	injected = c.fail&c10CFBit(kind, slot) != 0
	if kind == "Delete" || kind == "Detach" {
		// these calls are issued from sequential loops, so their ordinal is deterministic
		c.kindSeq[kind]++
		if c.nthFail[fmt.Sprintf("%s/%d", kind, c.kindSeq[kind])] {
			injected = true
		}
	}
	c.mu.Unlock()
	return injected, leave
}

func (c *c10Cloud) logCall(kind, eni string, slot int, injected bool, err error) {
	c.mu.Lock()
	defer c.mu.Unlock()
	cl := c10Call{Step: c.step, Kind: kind, ENI: eni, Slot: slot, Injected: injected}
	if err != nil {
		cl.Err = err.Error()
	}
	c.calls = append(c.calls, cl)
}

var errC10Injected = fmt.Errorf("injected cloud error (Throttling)")

func (c *c10Cloud) CreateNetworkInterface(ctx context.Context, opts ...aliyunClient.CreateNetworkInterfaceOption) (*aliyunClient.NetworkInterface, error) {
	o := &aliyunClient.CreateNetworkInterfaceOptions{}
	for _, op := range opts {
		op.ApplyCreateNetworkInterface(o)
	}
	no := o.NetworkInterfaceOptions
	if no == nil {
		return nil, fmt.Errorf("sim: create without options")
	}
	slot := 0
	for _, sg := range no.SecurityGroupIDs {
		if strings.HasPrefix(sg, "sg-") {
			if v, err := strconv.Atoi(sg[3:]); err == nil {
				slot = v
			}
		}
	}
	injected, leave := c.enter("Create", "", slot)
	defer leave()
	if injected {
		c.logCall("Create", "", slot, true, errC10Injected)
		return nil, errC10Injected
	}
	c.mu.Lock()
	if slot < 0 || slot > 1 {
		slot = 0
	}
	c.slotSeq[slot]++
	c.ipSeq++
	e := &c10ENI{
		ID:   fmt.Sprintf("eni-%d-%03d", slot, c.slotSeq[slot]),
		MAC:  fmt.Sprintf("00:16:3e:%02x:%02x:%02x", slot, c.slotSeq[slot]/256, c.slotSeq[slot]%256),
		Type: aliyunClient.ENITypeSecondary, Status: aliyunClient.ENIStatusAvailable,
		VSw: no.VSwitchID, Zone: c10Zone, RG: no.ResourceGroupID,
		IPv4:    fmt.Sprintf("192.168.%d.%d", 1+c.ipSeq/250, 2+c.ipSeq%250),
		SG:      append([]string(nil), no.SecurityGroupIDs...),
		Created: time.Now().Add(-c.createAge).UTC().Format(c10Layout),
		ByCtl:   true, CreatedStep: c.step, Slot: slot,
		DeleteOnRelease: no.DeleteENIOnECSRelease == nil || *no.DeleteENIOnECSRelease,
	}
	if no.IPv6Count > 0 {
		e.IPv6 = fmt.Sprintf("fd00::%x", 0x100+c.ipSeq)
	}
	for _, k := range sortedKeys(no.Tags) {
		e.Tags = append(e.Tags, ecs.Tag{TagKey: k, TagValue: no.Tags[k], Key: k, Value: no.Tags[k]})
	}
	c.enis[e.ID] = e
	c.order = append(c.order, e.ID)
	c.mutations++
	v := e.view()
	c.mu.Unlock()
	c.logCall("Create", v.NetworkInterfaceID, slot, false, nil)
	return v, nil
}

func sortedKeys(m map[string]string) []string {
	ks := make([]string, 0, len(m))
	for k := range m {
		ks = append(ks, k)
	}
	for i := 1; i < len(ks); i++ {
		for j := i; j > 0 && ks[j] < ks[j-1]; j-- {
			ks[j], ks[j-1] = ks[j-1], ks[j]
		}
	}
	return ks
}

func (c *c10Cloud) AttachNetworkInterface(ctx context.Context, opts ...aliyunClient.AttachNetworkInterfaceOption) error {
	o := &aliyunClient.AttachNetworkInterfaceOptions{}
	for _, op := range opts {
		op.ApplyTo(o)
	}
	if o.NetworkInterfaceID == nil || o.InstanceID == nil {
		return fmt.Errorf("sim: attach without ids")
	}
	id, inst, trunk := *o.NetworkInterfaceID, *o.InstanceID, ""
	if o.TrunkNetworkInstanceID != nil {
		trunk = *o.TrunkNetworkInstanceID
	}
	slot := c.slotOf(id)
	injected, leave := c.enter("Attach", id, slot)
	defer leave()
	if injected {
		c.logCall("Attach", id, slot, true, errC10Injected)
		return errC10Injected
	}
	c.mu.Lock()
	e, ok := c.enis[id]
	var err error
	switch {
	case !ok:
		err = fmt.Errorf("InvalidEniId.NotFound: %s", id)
	case e.Status == aliyunClient.ENIStatusInUse && e.Instance == inst && e.Trunk == trunk:
		// repeated attach to the same place: accepted
	case e.Status != aliyunClient.ENIStatusAvailable:
		err = fmt.Errorf("InvalidOperation.InvalidEniState: %s is %s on %s", id, e.Status, e.Instance)
	default:
		e.Status, e.Instance, e.Trunk = aliyunClient.ENIStatusInUse, inst, trunk
		if trunk != "" {
			e.Type = aliyunClient.ENITypeMember
			e.DeviceIndex = 1000 + e.Slot
		} else {
			e.DeviceIndex = 1 + e.Slot
		}
		c.mutations++
	}
	c.mu.Unlock()
	c.logCall("Attach", id, slot, false, err)
	return err
}

func (c *c10Cloud) DetachNetworkInterface(ctx context.Context, eniID, instanceID, trunkENIID string) error {
	slot := c.slotOf(eniID)
	injected, leave := c.enter("Detach", eniID, slot)
	defer leave()
	if injected {
		c.logCall("Detach", eniID, slot, true, errC10Injected)
		return errC10Injected
	}
	c.mu.Lock()
	e, ok := c.enis[eniID]
	// the real client maps InvalidEniId.NotFound / InvalidEcsId.NotFound to success
	if ok && e.Status == aliyunClient.ENIStatusInUse {
		e.Status, e.Instance, e.Trunk, e.DeviceIndex = aliyunClient.ENIStatusAvailable, "", "", 0
		if e.Type == aliyunClient.ENITypeMember {
			e.Type = aliyunClient.ENITypeSecondary
		}
		c.mutations++
	}
	c.mu.Unlock()
	c.logCall("Detach", eniID, slot, false, nil)
	return nil
}

func (c *c10Cloud) DeleteNetworkInterface(ctx context.Context, eniID string) error {
	slot := c.slotOf(eniID)
	injected, leave := c.enter("Delete", eniID, slot)
	defer leave()
	c.mu.Lock()
	c.deleteTried[eniID] = true
	if injected {
		c.deleteInjected[eniID] = true
		c.deleteInjStep[c.step] = true
	}
	c.mu.Unlock()
	if injected {
		c.logCall("Delete", eniID, slot, true, errC10Injected)
		return errC10Injected
	}
	c.mu.Lock()
	e, ok := c.enis[eniID]
	var err error
	switch {
	case !ok:
		// assumption: deleting an interface that is already gone is accepted
	case e.Status != aliyunClient.ENIStatusAvailable:
		err = fmt.Errorf("%s: %s is %s", apiErr.ErrInvalidENIState, eniID, e.Status)
	default:
		delete(c.enis, eniID)
		c.mutations++
	}
	c.mu.Unlock()
	c.logCall("Delete", eniID, slot, false, err)
	return err
}

func (c *c10Cloud) DescribeNetworkInterface(ctx context.Context, vpcID string, eniID []string, instanceID string, instanceType string, status string, tags map[string]string) ([]*aliyunClient.NetworkInterface, error) {
	c.mu.Lock()
	defer c.mu.Unlock()
	if c.fail&c10CFDescribe != 0 {
		return nil, errC10Injected
	}
	var out []*aliyunClient.NetworkInterface
	for _, id := range c.order {
		e, ok := c.enis[id]
		if !ok {
			continue
		}
		if vpcID != "" && vpcID != c10VPC {
			continue
		}
		if len(eniID) > 0 {
			found := false
			for _, w := range eniID {
				found = found || w == id
			}
			if !found {
				continue
			}
		}
		if instanceID != "" && e.Instance != instanceID {
			continue
		}
		if instanceType != "" && e.Type != instanceType {
			continue
		}
		if status != "" && e.Status != status {
			continue
		}
		match := true
		for k, v := range tags {
			has := false
			for _, t := range e.Tags {
				has = has || (t.TagKey == k && t.TagValue == v)
			}
			match = match && has
		}
		if !match {
			continue
		}
		out = append(out, e.view())
	}
	return out, nil
}

func (c *c10Cloud) WaitForNetworkInterface(ctx context.Context, eniID string, status string, backoff wait.Backoff, ignoreNotExist bool) (*aliyunClient.NetworkInterface, error) {
	c.mu.Lock()
	defer c.mu.Unlock()
	if c.fail&c10CFDescribe != 0 {
		return nil, fmt.Errorf("error wait for eni %v to status %s, %w", eniID, status, wait.ErrWaitTimeout)
	}
	e, ok := c.enis[eniID]
	if !ok {
		if ignoreNotExist {
			return nil, fmt.Errorf("error wait for eni %v to status %s, %w", eniID, status, apiErr.ErrNotFound)
		}
		return nil, fmt.Errorf("error wait for eni %v to status %s, %w", eniID, status, wait.ErrWaitTimeout)
	}
	if status != "" && e.Status != status {
		return nil, fmt.Errorf("error wait for eni %v to status %s (is %s), %w", eniID, status, e.Status, wait.ErrWaitTimeout)
	}
	return e.view(), nil
}

func (c *c10Cloud) DescribeVSwitchByID(ctx context.Context, vSwitchID string) (*vpc.VSwitch, error) {
	c.mu.Lock()
	defer c.mu.Unlock()
	if c.fail&c10CFVSwitch != 0 {
		return nil, errC10Injected
	}
	if vSwitchID != c10VSw {
		return nil, apiErr.ErrNotFound
	}
	v := &vpc.VSwitch{VpcId: c10VPC, VSwitchId: c10VSw, ZoneId: c10Zone, AvailableIpAddressCount: 4000, CidrBlock: "192.168.0.0/16"}
	if c.dual {
		v.Ipv6CidrBlock = "fd00::/64"
	}
	return v, nil
}

func (c *c10Cloud) DescribeInstanceTypes(ctx context.Context, types []string) ([]ecs.InstanceType, error) {
	return nil, fmt.Errorf("sim: DescribeInstanceTypes is not modelled (node status cache is pre-filled)")
}

// unused by the two controllers, present so that an unexpected call fails loudly but
// without a nil dereference
func (c *c10Cloud) AssignPrivateIPAddress(ctx context.Context, opts ...aliyunClient.AssignPrivateIPAddressOption) ([]netip.Addr, error) {
	return nil, fmt.Errorf("sim: not modelled")
}

// releaseInstance is the environment event "the ECS instance is released" (scale-in, spot reclaim):
// interfaces attached to it that were created with DeleteOnRelease are deleted by the cloud, the
// others are detached and become Available. Trunk interfaces belong to the instance and are left
// to the replacement instance that registers under the same node name (and, in this model, the
// same instance id).
func (c *c10Cloud) releaseInstance(inst string) (deleted, detached []string) {
	c.mu.Lock()
	defer c.mu.Unlock()
	for _, id := range c.order {
		e, ok := c.enis[id]
		if !ok || e.Instance != inst || e.Type == aliyunClient.ENITypeTrunk || e.Type == aliyunClient.ENITypePrimary {
			continue
		}
		if e.DeleteOnRelease {
			delete(c.enis, id)
			deleted = append(deleted, id)
		} else {
			e.Status, e.Instance, e.Trunk, e.DeviceIndex = aliyunClient.ENIStatusAvailable, "", "", 0
			if e.Type == aliyunClient.ENITypeMember {
				e.Type = aliyunClient.ENITypeSecondary
			}
			detached = append(detached, id)
		}
		c.mutations++
	}
	return deleted, detached
}
