package c10loop

// The world of one case: fake API server (controller-runtime fake client with
// types.Scheme, PodENI status subresource, finalizer/deletionTimestamp semantics)
// behind an interceptor that injects faults and observes every PodENI write, the cloud
// simulator, and the two real reconcilers. Oracles of C10 and C11 live here.

import (
	"context"
	"encoding/json"
	"errors"
	"fmt"
	"os"
	"sort"
	"strings"
	"sync"
	"time"

	"github.com/aliyun/alibaba-cloud-sdk-go/services/ecs"
	"github.com/go-logr/logr"
	corev1 "k8s.io/api/core/v1"
	apierrors "k8s.io/apimachinery/pkg/api/errors"
	metav1 "k8s.io/apimachinery/pkg/apis/meta/v1"
	"k8s.io/apimachinery/pkg/runtime"
	"k8s.io/apimachinery/pkg/runtime/schema"
	k8stypes "k8s.io/apimachinery/pkg/types"
	"k8s.io/apimachinery/pkg/util/wait"
	ctrl "sigs.k8s.io/controller-runtime"
	"sigs.k8s.io/controller-runtime/pkg/client"
	"sigs.k8s.io/controller-runtime/pkg/client/fake"
	"sigs.k8s.io/controller-runtime/pkg/client/interceptor"
	"sigs.k8s.io/controller-runtime/pkg/reconcile"

	aliyunClient "github.com/AliyunContainerService/terway/pkg/aliyun/client"
	"github.com/AliyunContainerService/terway/pkg/apis/network.alibabacloud.com/v1beta1"
	"github.com/AliyunContainerService/terway/pkg/backoff"
	podctl "github.com/AliyunContainerService/terway/pkg/controller/pod"
	podeni "github.com/AliyunContainerService/terway/pkg/controller/pod-eni"
	"github.com/AliyunContainerService/terway/pkg/controller/status"
	"github.com/AliyunContainerService/terway/pkg/eni"
	"github.com/AliyunContainerService/terway/pkg/vswitch"
	"github.com/AliyunContainerService/terway/types"
	"github.com/AliyunContainerService/terway/types/controlplane"
	"github.com/AliyunContainerService/terway/types/daemon"
	"github.com/AliyunContainerService/terway/zz_verif/vt"
)

func init() {
	ctrl.SetLogger(logr.Discard())
	// the daemon's wait for a usable PodENI (20 x 5 s) is a wall-clock backoff: three quick looks
	backoff.OverrideBackoff(map[string]wait.Backoff{backoff.WaitPodENIStatus: {Duration: time.Millisecond, Factor: 1, Steps: 3}})
}

const (
	c10NS        = "default"
	c10Finalizer = "verif.c10/kubelet" // keeps a deleted pod visible until the "kubelet" lets go
)

// API fault bits of one step. Reads: only the first matching call of the step fails
// (a persistent read failure would only stretch podCreate's 2 s poll); writes: every
// matching call of the step fails. Writes concern PodENI objects only.
const (
	c10AFGetPod = 1 << iota
	c10AFGetNode
	c10AFGetENI
	c10AFListENI
	c10AFCreate
	c10AFUpdate
	c10AFPatch
	c10AFStatusUpdate
	c10AFStatusPatch
	c10AFDelete
	// every Get of a PodENI that follows a successful Create of a PodENI in the same step fails, and
	// the step's context is cancelled at the first such failure (controller shutdown / lost lease while
	// podCreate polls for its new record; the cancellation also keeps the 2 s wall-clock poll short)
	c10AFReadBack
	c10AFBits = 11
)

// ---------------------------------------------------------------- scenario types

type c10Net struct {
	Fixed    bool   `json:"fixed,omitempty"`
	Strategy string `json:"strategy,omitempty"` // TTL | Never | "" (only meaningful when Fixed)
	After    string `json:"after,omitempty"`
}

type c10PodSpec struct {
	Nets []c10Net `json:"nets"`
	// NoAnno: the pod does not carry the k8s.aliyun.com/pod-eni annotation; it is served only
	// in CRD mode or on a node in exclusive ENI mode (node-2)
	NoAnno bool `json:"noanno,omitempty"`
}

type c10Mid struct {
	K string `json:"k"` // delete | exit | gone | create | rpod | reni
	P int    `json:"p"`
	N int    `json:"n,omitempty"`
}

type c10Op struct {
	K        string  `json:"k"` // create delete exit gone nodegone nodeback release cniadd rpod reni gccr gcsec gcmem
	P        int     `json:"p,omitempty"`
	N        int     `json:"n,omitempty"`
	CF       uint16  `json:"cf,omitempty"`
	AF       uint16  `json:"af,omitempty"`
	Conflict bool    `json:"conflict,omitempty"`
	Mid      *c10Mid `json:"mid,omitempty"`
}

// population interface seeded into the cloud (C11 leak GC)
type c10SeedENI struct {
	Cluster int    `json:"cluster"` // 0 ours, 1 other cluster, 2 absent
	Creator int    `json:"creator"` // 0 ours, 1 other creator, 2 absent
	Extra   bool   `json:"extra,omitempty"`
	AgeSec  int    `json:"age_sec"` // creation time = start - AgeSec; -1: unparsable creation time
	Status  string `json:"status"`
	Type    string `json:"type"`
}

type c10SeedAlloc struct {
	Fixed    bool   `json:"fixed,omitempty"`
	Strategy string `json:"strategy,omitempty"`
	After    string `json:"after,omitempty"`
	Pop      int    `json:"pop"` // index into SeedENIs, or -1: a private interface consistent with the phase
}

// record seeded into the API server (C11 retention / leak GC); its name is pod #P's
type c10SeedRec struct {
	P       int    `json:"p"`
	Phase   string `json:"phase"`
	SeenAgo int    `json:"seen_ago"` // podLastSeen = start - SeenAgo seconds; -1: unset
	// metadata.creationTimestamp = start - CreatedAgo seconds (a record is created by ReconcilePod for
	// a pod that exists, so this is the earliest observation of the pod; never later than podLastSeen)
	CreatedAgo int            `json:"created_ago"`
	Pod        string         `json:"pod"` // absent | alive | exited | terminating
	UIDMatch   bool           `json:"uid_match"`
	Node       int            `json:"node,omitempty"` // node of the record (label, instance) and of its pod
	Allocs     []c10SeedAlloc `json:"allocs"`
}

type c10Scenario struct {
	Trunk    bool         `json:"trunk,omitempty"`
	CRD      bool         `json:"crd,omitempty"`
	Dual     bool         `json:"dual,omitempty"`
	Cards    int          `json:"cards,omitempty"`
	AgeOld   bool         `json:"age_old,omitempty"` // interfaces created by the code look 11 min old
	Pods     []c10PodSpec `json:"pods,omitempty"`
	SeedENIs []c10SeedENI `json:"seed_enis,omitempty"`
	SeedRecs []c10SeedRec `json:"seed_recs,omitempty"`
	Ops      []c10Op      `json:"ops"`
	Settle   bool         `json:"settle,omitempty"`
	// GCSettle: after the history the pod controller stays down (no ReconcilePod); only collector passes
	// and ReconcilePodENI run, then the end state of records whose pod is gone is judged
	GCSettle bool `json:"gc_settle,omitempty"`
	// TZ: zone of the controller process (time.Local) in hours east of UTC; 0 = UTC
	TZ int `json:"tz,omitempty"`
	// cloud outage: the fault bits CF apply to every reconcile/collector step with
	// From <= index < To (including the two halves of an "rr" step)
	Outage *c10Outage `json:"outage,omitempty"`
	// the N-th (1-based) DeleteNetworkInterface / DetachNetworkInterface call of the history fails
	NthFail []c10Nth `json:"nth_fail,omitempty"`
}

type c10Nth struct {
	Kind string `json:"kind"` // Delete | Detach
	N    int    `json:"n"`
}

type c10Outage struct {
	From int    `json:"from"`
	To   int    `json:"to"`
	CF   uint16 `json:"cf"`
}

// ---------------------------------------------------------------- world

type c10AllocID struct {
	ENI, V4, V6     string
	Fixed           bool
	Strategy, After string
	Trunk           *bool
}

type c10Snap struct {
	Present  bool
	Phase    string
	Deleting bool
	UID      string
	Instance string
	Allocs   []c10AllocID
	HasFixed bool
	LastSeen time.Time
	Created  time.Time
}

func (s c10Snap) ident() string {
	var p []string
	for _, a := range s.Allocs {
		p = append(p, a.ENI+"/"+a.V4+"/"+a.V6)
	}
	sort.Strings(p)
	return strings.Join(p, ",")
}

type c10PodState struct {
	inc  int // incarnations so far
	node int
}

type c10World struct {
	c     *vt.Ctx
	s     c10Scenario
	start time.Time
	base  client.WithWatch
	cl    client.WithWatch
	cloud *c10Cloud
	rp    *podctl.ReconcilePod
	re    *podeni.ReconcilePodENI

	mu       sync.Mutex
	af       uint16
	conflict bool
	seen     map[uint16]bool
	writes   int
	actor    string
	actorK   string
	step     int
	viol     []string

	snaps    map[string]c10Snap
	gen      map[string]int
	boundID  map[string]string    // name -> allocation identity at first Bind
	observed map[string]time.Time // name -> last gc pass that saw the pod alive
	released map[string]bool
	everRef  map[string]bool // interface id -> some record referenced it at some point
	pods     []c10PodState
	nt       bool
	noGuard  bool
	// interfaces the environment detached or deleted (instance release); "Bind => attached" is not
	// demanded of the controllers for them until they are attached again
	envPulled  map[string]bool
	envDeleted map[string]bool
	// per-step state of the read-back fault
	createdInStep bool
	afterList     func()
	stepStart     time.Time
	stepCancel    context.CancelFunc
	// CNI ADDs that succeeded: interface id -> pod instance it was handed to
	added     map[string][2]string
	nodeTmpl  []*corev1.Node
	callMark  int
	faulted   bool // some step of the history had an injected fault
	closed    bool // closed-loop scenario (no seeds): oracle (5) and end-state oracles apply
	edgeKnown int
}

type c10Recorder struct{}

func (c10Recorder) Event(object runtime.Object, eventtype, reason, message string) {}
func (c10Recorder) Eventf(object runtime.Object, eventtype, reason, messageFmt string, args ...interface{}) {
}
func (c10Recorder) AnnotatedEventf(object runtime.Object, annotations map[string]string, eventtype, reason, messageFmt string, args ...interface{}) {
}

func c10NodeName(i int) string { return fmt.Sprintf("node-%d", i) }
func c10PodName(i int) string  { return fmt.Sprintf("p%d", i) }
func c10Instance(i int) string { return fmt.Sprintf("i-n%d", i) }
func c10TrunkID(i int) string  { return fmt.Sprintf("eni-trunk-%d", i) }

const c10Nodes = 3 // node-0, node-1: ordinary (trunk-capable when trunk is on); node-2: exclusive ENI mode

func c10NewWorld(c *vt.Ctx, s c10Scenario) *c10World {
	w := &c10World{c: c, s: s, start: time.Now(), seen: map[uint16]bool{}, snaps: map[string]c10Snap{}, gen: map[string]int{},
		boundID: map[string]string{}, observed: map[string]time.Time{}, released: map[string]bool{}, everRef: map[string]bool{}, added: map[string][2]string{}, envPulled: map[string]bool{}, envDeleted: map[string]bool{}}
	w.pods = make([]c10PodState, len(s.Pods))
	w.closed = len(s.SeedENIs) == 0 && len(s.SeedRecs) == 0

	trunk := s.Trunk
	ipStack := "ipv4"
	if s.Dual {
		ipStack = "dual"
	}
	ipam := ""
	if s.CRD {
		ipam = types.IPAMTypeCRD
	}
	controlplane.SetConfig(&controlplane.Config{ClusterID: c10ClusterID, VPCID: c10VPC, RegionID: c10Region,
		EnableTrunk: &trunk, IPStack: ipStack, IPAMType: ipam})

	age := time.Duration(0)
	if s.AgeOld {
		age = 11 * time.Minute
	}
	w.cloud = c10NewCloud(s.Dual, age)
	w.cloud.onPull = w.onPull
	for _, n := range s.NthFail {
		w.cloud.nthFail[fmt.Sprintf("%s/%d", n.Kind, n.N)] = true
		w.faulted = true
	}

	var objs []client.Object
	cache := status.NewCache[status.NodeStatus]()
	cards := s.Cards
	if cards < 1 {
		cards = 1
	}
	for i := 0; i < c10Nodes; i++ {
		n := &corev1.Node{ObjectMeta: metav1.ObjectMeta{Name: c10NodeName(i), Labels: map[string]string{
			corev1.LabelTopologyRegion: c10Region, corev1.LabelTopologyZone: c10Zone, corev1.LabelInstanceTypeStable: "ecs.g7.large",
		}, Annotations: map[string]string{}}, Spec: corev1.NodeSpec{ProviderID: c10Region + "." + c10Instance(i)}}
		if i == 2 {
			n.Labels[types.ExclusiveENIModeLabel] = string(types.ExclusiveENIOnly)
		} else if s.Trunk {
			n.Annotations[types.TrunkOn] = c10TrunkID(i)
			w.cloud.seed(&c10ENI{ID: c10TrunkID(i), Type: aliyunClient.ENITypeTrunk, Status: aliyunClient.ENIStatusInUse, Instance: c10Instance(i),
				VSw: c10VSw, Zone: c10Zone, IPv4: fmt.Sprintf("192.168.0.%d", 10+i), Slot: -1,
				Tags:    c10OursTags(),
				Created: w.start.Add(-time.Hour).UTC().Format(c10Layout)})
		}
		objs = append(objs, n)
		w.nodeTmpl = append(w.nodeTmpl, n.DeepCopy())
		cache.LoadOrStore(n.Name, status.NewNodeStatus(cards))
	}
	w.base = fake.NewClientBuilder().WithScheme(types.Scheme).WithStatusSubresource(&v1beta1.PodENI{}).WithObjects(objs...).Build()
	w.cl = interceptor.NewClient(w.base, w.funcs())

	sw, err := vswitch.NewSwitchPool(100, "10m")
	if err != nil {
		panic(err)
	}
	w.rp = podctl.VerifC10NewReconcilePod(w.cl, types.Scheme, w.cloud, sw, c10Recorder{}, s.Trunk, s.CRD)
	w.re = podeni.VerifC10NewReconcilePodENI(w.cl, types.Scheme, w.cloud, c10Recorder{}, s.Trunk, s.CRD, cache)
	return w
}

func (w *c10World) violate(f string, a ...any) {
	w.mu.Lock()
	defer w.mu.Unlock()
	w.viol = append(w.viol, fmt.Sprintf("step %d (%s): ", w.step, w.actor)+fmt.Sprintf(f, a...))
}

func (w *c10World) checkViol() {
	w.mu.Lock()
	v := w.viol
	w.mu.Unlock()
	if len(v) > 0 {
		w.c.Fatalf("%s", v[0])
	}
}

// ---------------------------------------------------------------- API interceptor

var c10GR = schema.GroupResource{Group: "network.alibabacloud.com", Resource: "podenis"}

func (w *c10World) readFault(bit uint16) error {
	w.mu.Lock()
	defer w.mu.Unlock()
	if w.af&bit == 0 || w.seen[bit] {
		return nil
	}
	w.seen[bit] = true
	return apierrors.NewInternalError(errors.New("injected API read error"))
}

func (w *c10World) writeFault(bit uint16, obj client.Object, conflictable bool) error {
	if _, ok := obj.(*v1beta1.PodENI); !ok {
		return nil
	}
	w.mu.Lock()
	defer w.mu.Unlock()
	if w.af&bit == 0 {
		return nil
	}
	if w.conflict && conflictable {
		return apierrors.NewConflict(c10GR, obj.GetName(), errors.New("injected conflict"))
	}
	return apierrors.NewInternalError(errors.New("injected API write error"))
}

func (w *c10World) wrote(obj client.Object, err error) {
	p, ok := obj.(*v1beta1.PodENI)
	if !ok {
		return
	}
	if err == nil {
		w.mu.Lock()
		w.writes++
		w.mu.Unlock()
	}
	w.observe(p.Name)
}

func (w *c10World) funcs() interceptor.Funcs {
	return interceptor.Funcs{
		Get: func(ctx context.Context, c client.WithWatch, key client.ObjectKey, obj client.Object, opts ...client.GetOption) error {
			var bit uint16
			switch obj.(type) {
			case *corev1.Pod:
				bit = c10AFGetPod
			case *corev1.Node:
				bit = c10AFGetNode
			case *v1beta1.PodENI:
				bit = c10AFGetENI
				w.mu.Lock()
				readBack := w.af&c10AFReadBack != 0 && w.createdInStep
				cancel := w.stepCancel
				w.mu.Unlock()
				if readBack {
					if cancel != nil {
						cancel()
					}
					w.c.Label("fault:readback-after-create")
					return apierrors.NewInternalError(errors.New("injected API read error after create (context cancelled)"))
				}
			}
			if bit != 0 {
				if err := w.readFault(bit); err != nil {
					return err
				}
			}
			return c.Get(ctx, key, obj, opts...)
		},
		List: func(ctx context.Context, c client.WithWatch, list client.ObjectList, opts ...client.ListOption) error {
			if _, ok := list.(*v1beta1.PodENIList); ok {
				if err := w.readFault(c10AFListENI); err != nil {
					return err
				}
			}
			err := c.List(ctx, list, opts...)
			if _, ok := list.(*v1beta1.PodENIList); ok && err == nil {
				// an action that happens after the collector took its snapshot and before it
				// walks it (the collector lists once, then reads and writes item by item)
				w.mu.Lock()
				hook := w.afterList
				w.afterList = nil
				w.mu.Unlock()
				if hook != nil {
					hook()
				}
			}
			return err
		},
		Create: func(ctx context.Context, c client.WithWatch, obj client.Object, opts ...client.CreateOption) error {
			if err := w.writeFault(c10AFCreate, obj, false); err != nil {
				return err
			}
			if ts := obj.GetCreationTimestamp(); ts.IsZero() {
				// the API server stamps metadata.creationTimestamp (the fake client does not); wall clock,
				// like every other time in this harness (there is no virtual clock: ages are "now - D")
				obj.SetCreationTimestamp(metav1.Now())
			}
			err := c.Create(ctx, obj, opts...)
			if _, ok := obj.(*v1beta1.PodENI); ok && err == nil {
				w.mu.Lock()
				w.createdInStep = true
				w.mu.Unlock()
			}
			w.wrote(obj, err)
			return err
		},
		Delete: func(ctx context.Context, c client.WithWatch, obj client.Object, opts ...client.DeleteOption) error {
			if err := w.writeFault(c10AFDelete, obj, false); err != nil {
				return err
			}
			err := c.Delete(ctx, obj, opts...)
			w.wrote(obj, err)
			return err
		},
		Update: func(ctx context.Context, c client.WithWatch, obj client.Object, opts ...client.UpdateOption) error {
			if err := w.writeFault(c10AFUpdate, obj, true); err != nil {
				return err
			}
			err := c.Update(ctx, obj, opts...)
			w.wrote(obj, err)
			return err
		},
		Patch: func(ctx context.Context, c client.WithWatch, obj client.Object, patch client.Patch, opts ...client.PatchOption) error {
			if err := w.writeFault(c10AFPatch, obj, false); err != nil {
				return err
			}
			err := c.Patch(ctx, obj, patch, opts...)
			w.wrote(obj, err)
			return err
		},
		SubResourceUpdate: func(ctx context.Context, c client.Client, sub string, obj client.Object, opts ...client.SubResourceUpdateOption) error {
			if err := w.writeFault(c10AFStatusUpdate, obj, true); err != nil {
				return err
			}
			err := c.SubResource(sub).Update(ctx, obj, opts...)
			w.wrote(obj, err)
			return err
		},
		SubResourcePatch: func(ctx context.Context, c client.Client, sub string, obj client.Object, patch client.Patch, opts ...client.SubResourcePatchOption) error {
			if err := w.writeFault(c10AFStatusPatch, obj, false); err != nil {
				return err
			}
			err := c.SubResource(sub).Patch(ctx, obj, patch, opts...)
			w.wrote(obj, err)
			return err
		},
	}
}

// ---------------------------------------------------------------- snapshots and the phase recorder (C10 oracle 1, C11 a)

func (w *c10World) read(name string) c10Snap {
	p := &v1beta1.PodENI{}
	if err := w.base.Get(context.Background(), k8stypes.NamespacedName{Namespace: c10NS, Name: name}, p); err != nil {
		return c10Snap{}
	}
	return c10SnapOf(p)
}

func c10SnapOf(p *v1beta1.PodENI) c10Snap {
	s := c10Snap{Present: true, Phase: string(p.Status.Phase), Deleting: !p.DeletionTimestamp.IsZero(), UID: p.Annotations[types.PodUID],
		Instance: p.Status.InstanceID, LastSeen: p.Status.PodLastSeen.Time, Created: p.CreationTimestamp.Time}
	for _, a := range p.Spec.Allocations {
		f := a.AllocationType.Type == v1beta1.IPAllocTypeFixed
		s.HasFixed = s.HasFixed || f
		s.Allocs = append(s.Allocs, c10AllocID{ENI: a.ENI.ID, V4: a.IPv4, V6: a.IPv6, Fixed: f,
			Strategy: string(a.AllocationType.ReleaseStrategy), After: a.AllocationType.ReleaseAfter, Trunk: a.ENI.AttachmentOptions.Trunk})
	}
	return s
}

var c10Edges = map[[2]string]bool{
	{"", "Bind"}: true, {"Bind", "Detaching"}: true, {"Detaching", "Unbind"}: true, {"Unbind", "Binding"}: true, {"Binding", "Bind"}: true,
}

const c10KnownDetaching = "C10-detaching-from-nonbind"
const c10KnownDetachingUnbind = "C10-detaching-from-unbind"

// a pod with a fixed AND an elastic allocation: the elastic interface is created with DeleteOnRelease, the
// cloud deletes it with a released instance, the retained record then names a dead interface and can
// never be bound again (the fixed interface is not given back either)
const c11KnownMixedRelease = "C11-mixed-pod-elastic-eni-deleted-on-release"

// mixedReleased: the record has a fixed allocation, and a non-fixed allocation of it lost its interface
// to an instance release
func (w *c10World) mixedReleased(rec c10Snap) bool {
	if !rec.HasFixed {
		return false
	}
	for _, a := range rec.Allocs {
		if !a.Fixed && w.envDeleted[a.ENI] {
			return true
		}
	}
	return false
}

const c10KnownRollback = "C10-rollback-stops-at-first-error"

// observe compares the stored record with the last snapshot; it is called after every
// PodENI write the code under test issues.
func (w *c10World) observe(name string) {
	cur := w.read(name)
	w.mu.Lock()
	prev := w.snaps[name]
	w.snaps[name] = cur
	actorK := w.actorK
	for _, a := range cur.Allocs {
		w.everRef[a.ENI] = true
	}
	w.mu.Unlock()
	switch {
	case !prev.Present && !cur.Present:
		return
	case !prev.Present && cur.Present:
		w.gen[name]++
		if actorK == "rpod" {
			// ReconcilePod creates a record only for a pod it has just read: the controller observed the pod
			// no earlier than the start of that reconcile (observations are per pod, harness clock)
			w.mu.Lock()
			if o := w.stepStart.Truncate(time.Second); o.After(w.observed[name]) {
				w.observed[name] = o
			}
			w.mu.Unlock()
		}
		w.c.Trace("  record %s created gen=%d phase=%q uid=%s allocs=%s", name, w.gen[name], cur.Phase, cur.UID, cur.ident())
		w.c.Labelf("edge:new>%s", c10PhaseName(cur.Phase))
		if cur.Phase != "" {
			w.violate("C10(1): record %s created in phase %q, want initial", name, cur.Phase)
		}
		return
	case prev.Present && !cur.Present:
		w.c.Trace("  record %s removed (was phase=%q deleting=%v)", name, prev.Phase, prev.Deleting)
		w.c.Labelf("edge:%s>removed", c10PhaseName(prev.Phase))
		if prev.Phase != "Deleting" && !prev.Deleting {
			w.violate("C10(1): record %s removed from phase %q without deletionTimestamp", name, prev.Phase)
		}
		return
	}
	if prev.Phase != cur.Phase {
		w.c.Trace("  record %s phase %q -> %q (uid=%s)", name, prev.Phase, cur.Phase, cur.UID)
		w.c.Labelf("edge:%s>%s", c10PhaseName(prev.Phase), c10PhaseName(cur.Phase))
		e := [2]string{prev.Phase, cur.Phase}
		switch {
		case cur.Phase == "Deleting", c10Edges[e]:
		case cur.Phase == "Detaching" && (prev.Phase == "Binding" || prev.Phase == "") && w.known(c10KnownDetaching):
			// pod left before the (re)attach finished: the code cancels through Detaching
			w.c.Label("known:" + c10KnownDetaching)
			w.edgeKnown++
		case cur.Phase == "Detaching" && prev.Phase == "Unbind" && w.known(c10KnownDetachingUnbind):
			// repeated reconcile of a gone/exited fixed-IP pod: Unbind -> Detaching -> Unbind churn
			w.c.Label("known:" + c10KnownDetachingUnbind)
			w.edgeKnown++
		default:
			w.violate("C10(1): record %s moved %q -> %q, not an edge of the documented machine", name, prev.Phase, cur.Phase)
		}
	}
	if !prev.Deleting && cur.Deleting {
		w.c.Trace("  record %s deletionTimestamp set in phase %q", name, cur.Phase)
		w.c.Labelf("delete-in:%s", c10PhaseName(cur.Phase))
	}
	// C11 retention outside the TTL collector: nothing but gcCRPodENIs may give up a fixed-IP record
	releasedNow := (cur.Phase == "Deleting" && prev.Phase != "Deleting") || (cur.Deleting && !prev.Deleting && cur.Phase != "Deleting")
	if releasedNow && cur.HasFixed && actorK != "gccr" {
		w.violate("C11(b): fixed-IP record %s given up (phase %q, deleting=%v) by %s, not by the TTL collector", name, cur.Phase, cur.Deleting, actorK)
	}
	// C11 (a): the allocations of a record never change
	if len(prev.Allocs) > 0 && prev.ident() != cur.ident() {
		w.violate("C11(a): allocations of record %s changed: %s -> %s", name, prev.ident(), cur.ident())
	}
	if cur.Phase == "Bind" && prev.Phase != "Bind" && cur.HasFixed && actorK == "reni" {
		// the PodENI controller attached the interfaces for a pod it has just read: the pod was observed
		// no earlier than the start of that reconcile (harness clock, not the stored podLastSeen)
		w.mu.Lock()
		if o := w.stepStart.Truncate(time.Second); o.After(w.observed[name]) {
			w.observed[name] = o
		}
		w.mu.Unlock()
	}
	if cur.Phase == "Bind" && prev.Phase != "Bind" && cur.HasFixed {
		if id, ok := w.boundID[name]; ok && !w.released[name] {
			if id != cur.ident() {
				w.violate("C11(a): fixed-IP pod %s bound again with %s, first incarnation had %s", name, cur.ident(), id)
			} else {
				w.c.Label("rebind-same-eni")
			}
		} else {
			w.boundID[name] = cur.ident()
			w.released[name] = false
		}
	}
}

func c10PhaseName(p string) string {
	if p == "" {
		return "Initial"
	}
	return p
}

// ---------------------------------------------------------------- call-time monitor (C10 oracle 2, C11 c)

func c10Exited(p *corev1.Pod) bool {
	return p.Status.Phase == corev1.PodSucceeded || p.Status.Phase == corev1.PodFailed
}

func (w *c10World) onPull(kind, eni string) {
	now := time.Now()
	list := &v1beta1.PodENIList{}
	if err := w.base.List(context.Background(), list); err != nil {
		panic(err)
	}
	referenced := false
	for i := range list.Items {
		r := &list.Items[i]
		for _, a := range r.Spec.Allocations {
			if a.ENI.ID != eni {
				continue
			}
			referenced = true
			if kind == "Delete" && len(r.Spec.Allocations) >= 2 {
				w.cloud.mu.Lock()
				hit := false
				if ce, ok := w.cloud.enis[eni]; ok {
					hit = w.cloud.fail&c10CFBit("Delete", ce.Slot) != 0
				}
				hit = hit || w.cloud.nthFail[fmt.Sprintf("Delete/%d", w.cloud.kindSeq["Delete"]+1)]
				w.cloud.mu.Unlock()
				if hit {
					w.c.Label("fault:delete-of-2eni-record")
				}
			}
			uid := r.Annotations[types.PodUID]
			pod := &corev1.Pod{}
			err := w.base.Get(context.Background(), k8stypes.NamespacedName{Namespace: r.Namespace, Name: r.Name}, pod)
			if err == nil && string(pod.UID) == uid && !c10Exited(pod) {
				w.violate("C10(2): %s of %s while pod %s/%s uid=%s (record phase %q, deleting=%v) is still running (pod phase %q, terminating=%v)",
					kind, eni, r.Namespace, r.Name, uid, r.Status.Phase, !r.DeletionTimestamp.IsZero(), pod.Status.Phase, !pod.DeletionTimestamp.IsZero())
			}
		}
	}
	w.mu.Lock()
	actorK := w.actorK
	holder, handed := w.added[eni]
	w.mu.Unlock()
	if handed {
		// C10 (2), daemon side: the interface was handed to a pod instance by a successful CNI ADD
		pod := &corev1.Pod{}
		if err := w.base.Get(context.Background(), k8stypes.NamespacedName{Namespace: c10NS, Name: holder[0]}, pod); err == nil &&
			string(pod.UID) == holder[1] && !c10Exited(pod) {
			w.violate("C10(2): %s of %s, which a successful CNI ADD handed to pod %s uid=%s that is still running", kind, eni, holder[0], holder[1])
		}
	}
	w.c.Trace("  cloud %s %s (referenced=%v)", kind, eni, referenced)
	if !referenced && actorK == "rpod" && kind == "Delete" {
		// a fault hit between interface creation and record creation: rollback
		w.mu.Lock()
		w.nt = true
		w.mu.Unlock()
		w.c.Label("rollback")
	}
	if actorK != "gcsec" && actorK != "gcmem" {
		return
	}
	// C11 (c): the leak collector reaps only what is ours, stale and unreferenced
	e, ok := w.cloud.get(eni)
	if !ok {
		w.violate("C11(c): leak collector issued %s for unknown interface %s", kind, eni)
		return
	}
	w.c.Label("leakgc-reap")
	if referenced {
		w.violate("C11(c): leak collector issued %s for %s, which a record references", kind, eni)
	}
	cl, cr := c10TagOf(e.Tags, types.TagKeyClusterID), c10TagOf(e.Tags, types.NetworkInterfaceTagCreatorKey)
	if cl == nil || *cl != c10ClusterID || cr == nil || *cr != types.TagTerwayController {
		w.violate("C11(c): leak collector issued %s for %s whose tags are not this cluster's controller tags (%v)", kind, eni, c10TagString(e.Tags))
	}
	t, err := time.Parse(c10Layout, e.Created)
	if err != nil {
		w.violate("C11(c): leak collector issued %s for %s whose age is unknown (creation time %q)", kind, eni, e.Created)
	} else if t.Add(10 * time.Minute).After(now) {
		// the collector read the clock before this call, so it saw an even younger interface
		w.violate("C11(c): leak collector issued %s for %s created %s, %s ago (< 10 min grace)", kind, eni, e.Created, now.Sub(t))
	}
}

func c10TagOf(tags []ecs.Tag, k string) *string {
	for _, t := range tags {
		if t.TagKey == k {
			v := t.TagValue
			return &v
		}
	}
	return nil
}

func c10TagString(tags []ecs.Tag) string {
	var p []string
	for _, t := range tags {
		p = append(p, t.TagKey+"="+t.TagValue)
	}
	return strings.Join(p, ",")
}

// ---------------------------------------------------------------- pod lifecycle (the harness plays kubelet/user)

func (w *c10World) getPodByName(name string) *corev1.Pod {
	p := &corev1.Pod{}
	if err := w.base.Get(context.Background(), k8stypes.NamespacedName{Namespace: c10NS, Name: name}, p); err != nil {
		return nil
	}
	return p
}

func (w *c10World) getPod(i int) *corev1.Pod {
	p := &corev1.Pod{}
	if err := w.base.Get(context.Background(), k8stypes.NamespacedName{Namespace: c10NS, Name: c10PodName(i)}, p); err != nil {
		return nil
	}
	return p
}

func (w *c10World) netsJSON(nets []c10Net) string {
	var pn controlplane.PodNetworksAnnotation
	for i, n := range nets {
		e := controlplane.PodNetworks{VSwitchOptions: []string{c10VSw}, SecurityGroupIDs: []string{fmt.Sprintf("sg-%d", i)}, Interface: fmt.Sprintf("eth%d", i)}
		if n.Fixed {
			e.AllocationType = &v1beta1.AllocationType{Type: v1beta1.IPAllocTypeFixed, ReleaseStrategy: v1beta1.ReleaseStrategy(n.Strategy), ReleaseAfter: n.After}
		} else if i%2 == 1 {
			e.AllocationType = &v1beta1.AllocationType{Type: v1beta1.IPAllocTypeElastic}
		}
		pn.PodNetworks = append(pn.PodNetworks, e)
	}
	b, _ := json.Marshal(pn)
	return string(b)
}

func (w *c10World) newPod(i, node int, uid string, nets []c10Net) *corev1.Pod {
	p := w.newPodAnno(i, node, uid, nets)
	if i < len(w.s.Pods) && w.s.Pods[i].NoAnno {
		delete(p.Annotations, types.PodENI)
	}
	return p
}

// nodeOp removes a Node object (node re-registration, kubectl delete node) or puts it back.
func (w *c10World) nodeOp(k string, n int) {
	ctx := context.Background()
	n = ((n % c10Nodes) + c10Nodes) % c10Nodes
	cur := &corev1.Node{}
	err := w.base.Get(ctx, k8stypes.NamespacedName{Name: c10NodeName(n)}, cur)
	switch {
	case k == "nodegone" && err == nil:
		if err := w.base.Delete(ctx, cur); err != nil {
			panic(err)
		}
		w.c.Trace("  node object %s removed", c10NodeName(n))
		w.c.Label("node-object-missing")
	case k == "nodeback" && err != nil:
		if err := w.base.Create(ctx, w.nodeTmpl[n].DeepCopy()); err != nil {
			panic(err)
		}
		w.c.Trace("  node object %s registered again", c10NodeName(n))
	default:
		w.c.Label("skip:" + k)
	}
}

// releaseNode: the instance behind node n is released. Its pods vanish with it, its Node object is
// removed, and the cloud treats the attached interfaces according to their DeleteOnRelease option.
func (w *c10World) releaseNode(n int) {
	n = ((n % c10Nodes) + c10Nodes) % c10Nodes
	w.c.Label("instance-released")
	for i := range w.pods {
		if p := w.getPod(i); p != nil && p.Spec.NodeName == c10NodeName(n) {
			w.podOp("gone", i, 0)
		}
	}
	w.nodeOp("nodegone", n)
	deleted, detached := w.cloud.releaseInstance(c10Instance(n))
	w.c.Trace("  instance %s released: cloud deleted %v, detached %v", c10Instance(n), deleted, detached)
	w.mu.Lock()
	for _, id := range append(deleted, detached...) {
		w.envPulled[id] = true
	}
	w.mu.Unlock()
	for _, id := range deleted {
		w.envDeleted[id] = true
		if w.everRef[id] {
			w.c.Label("instance-released:referenced-interface-deleted-by-cloud")
		}
	}
}

// managed reports whether the controllers are responsible for the pod at all: CRD mode, the
// pod-eni annotation, or a node in exclusive ENI mode (judged from the harness' own node
// table, i.e. also while the Node object is momentarily missing)
func (w *c10World) managed(pod *corev1.Pod) bool {
	return w.s.CRD || types.PodUseENI(pod) || pod.Spec.NodeName == c10NodeName(2)
}

func (w *c10World) newPodAnno(i, node int, uid string, nets []c10Net) *corev1.Pod {
	return &corev1.Pod{
		ObjectMeta: metav1.ObjectMeta{Namespace: c10NS, Name: c10PodName(i), UID: k8stypes.UID(uid), Finalizers: []string{c10Finalizer},
			Annotations: map[string]string{types.PodENI: "true", types.PodNetworks: w.netsJSON(nets)}},
		Spec:   corev1.PodSpec{NodeName: c10NodeName(node), Containers: []corev1.Container{{Name: "c", Image: "i"}}},
		Status: corev1.PodStatus{Phase: corev1.PodRunning},
	}
}

func (w *c10World) recPhase(i int) (string, bool) {
	s := w.read(c10PodName(i))
	return s.Phase, s.Present
}

func (w *c10World) podOp(k string, i, node int) {
	ctx := context.Background()
	if i < 0 || i >= len(w.pods) {
		return
	}
	p := w.getPod(i)
	switch k {
	case "create":
		if p != nil {
			w.c.Label("skip:create-exists")
			return
		}
		w.pods[i].inc++
		w.pods[i].node = node % c10Nodes
		uid := fmt.Sprintf("%s-u%d", c10PodName(i), w.pods[i].inc)
		if err := w.base.Create(ctx, w.newPod(i, w.pods[i].node, uid, w.s.Pods[i].Nets)); err != nil {
			panic(err)
		}
		w.c.Trace("  pod %s created uid=%s on %s", c10PodName(i), uid, c10NodeName(w.pods[i].node))
		if w.pods[i].inc > 1 {
			w.nt = w.nt || w.closed
			ph, ok := w.recPhase(i)
			if ok {
				w.c.Labelf("recreate-with-record:%s", c10PhaseName(ph))
			} else {
				w.c.Label("recreate-no-record")
			}
		}
	case "delete":
		if p == nil || !p.DeletionTimestamp.IsZero() {
			w.c.Label("skip:delete")
			return
		}
		w.noteRace(i)
		if err := w.base.Delete(ctx, p); err != nil {
			panic(err)
		}
		w.c.Trace("  pod %s deletion requested (terminating)", c10PodName(i))
	case "exit":
		if p == nil || c10Exited(p) {
			w.c.Label("skip:exit")
			return
		}
		w.noteRace(i)
		p.Status.Phase = corev1.PodSucceeded
		if w.pods[i].inc%2 == 0 {
			p.Status.Phase = corev1.PodFailed
		}
		// pods have a status subresource in the fake client, as in the API server
		if err := w.base.Status().Update(ctx, p); err != nil {
			panic(err)
		}
		if q := w.getPod(i); q == nil || !c10Exited(q) {
			panic("harness: pod status update did not persist")
		}
		w.c.Trace("  pod %s sandbox exited (%s)", c10PodName(i), p.Status.Phase)
	case "gone":
		if p == nil {
			w.c.Label("skip:gone")
			return
		}
		w.noteRace(i)
		if p.DeletionTimestamp.IsZero() {
			if err := w.base.Delete(ctx, p); err != nil {
				panic(err)
			}
			p = w.getPod(i)
		}
		if p != nil {
			p.Finalizers = nil
			if err := w.base.Update(ctx, p); err != nil {
				panic(err)
			}
		}
		w.c.Trace("  pod %s gone", c10PodName(i))
	}
}

func (w *c10World) noteRace(i int) {
	if ph, ok := w.recPhase(i); ok && (ph == "" || ph == "Binding") {
		w.nt = w.nt || w.closed
		w.c.Labelf("race:pod-leaves-in-%s", c10PhaseName(ph))
	}
}

// ---------------------------------------------------------------- stepping

func (w *c10World) reconcile(k string, i int) {
	req := reconcile.Request{NamespacedName: k8stypes.NamespacedName{Namespace: c10NS, Name: c10PodName(i)}}
	var err error
	var res reconcile.Result
	ctx, cancel := context.WithCancel(context.Background())
	defer cancel()
	w.mu.Lock()
	savedCancel, savedCreated, savedStart := w.stepCancel, w.createdInStep, w.stepStart
	w.stepCancel, w.createdInStep, w.stepStart = cancel, false, time.Now()
	w.mu.Unlock()
	defer func() {
		w.mu.Lock()
		w.stepCancel, w.createdInStep, w.stepStart = savedCancel, savedCreated, savedStart
		w.mu.Unlock()
	}()
	switch k {
	case "rpod":
		res, err = w.rp.Reconcile(ctx, req)
	case "reni":
		res, err = w.re.Reconcile(ctx, req)
	case "gccr":
		w.re.VerifC10GCCR(context.Background())
	case "gcsec":
		w.re.VerifC10GCSecondary(context.Background())
	case "gcmem":
		w.re.VerifC10GCMember(context.Background())
	}
	if err != nil {
		w.c.Trace("  -> error: %v", err)
	} else if res.Requeue || res.RequeueAfter > 0 {
		w.c.Trace("  -> requeue")
	}
}

type c10Pre struct {
	podUID string
	snap   c10Snap
	alive  bool // pod exists, sandbox not exited
	uidEq  bool
}

func (w *c10World) preGC() map[string]c10Pre {
	out := map[string]c10Pre{}
	list := &v1beta1.PodENIList{}
	if err := w.base.List(context.Background(), list); err != nil {
		panic(err)
	}
	for i := range list.Items {
		r := &list.Items[i]
		pr := c10Pre{snap: c10SnapOf(r)}
		pod := &corev1.Pod{}
		if err := w.base.Get(context.Background(), k8stypes.NamespacedName{Namespace: r.Namespace, Name: r.Name}, pod); err == nil {
			pr.podUID = string(pod.UID)
			pr.alive = !c10Exited(pod) && w.managed(pod)
			pr.uidEq = string(pod.UID) == pr.snap.UID
		}
		out[r.Name] = pr
	}
	return out
}

// retention oracle (C11 b) for one pass of gcCRPodENIs that ran within [t0, t1]
// (apiFault: some API call of the pass was failed by injection, so the pass may not have
// been able to observe a pod or to store the observation)
func (w *c10World) postGC(pre map[string]c10Pre, t0, t1 time.Time, apiFault bool) {
	names := make([]string, 0, len(pre))
	for n := range pre {
		names = append(names, n)
	}
	sort.Strings(names)
	for _, name := range names {
		p := pre[name]
		post := w.read(name)
		movedToDeleting := post.Present && post.Phase == "Deleting" && p.snap.Phase != "Deleting"
		// an action may be interleaved with the pass: the pod counts as alive for the pass only if the
		// same instance is alive before and after it
		if q := w.getPodByName(name); p.alive && (q == nil || string(q.UID) != p.podUID || c10Exited(q)) {
			p.alive = false
		}
		if p.alive && p.snap.HasFixed && !apiFault {
			if o := t0.Truncate(time.Second); o.After(w.observed[name]) {
				w.observed[name] = o
			}
		}
		if !movedToDeleting {
			continue
		}
		w.c.Label("gc-release")
		if p.alive && (p.snap.HasFixed || p.uidEq) {
			w.violate("C11(b)/C10: gc moved record %s to Deleting while its pod is alive (fixed=%v uid match=%v)", name, p.snap.HasFixed, p.uidEq)
			continue
		}
		// last observation of the pod by the controllers: the record's creation (ReconcilePod creates it
		// for a pod it has read; metadata.creationTimestamp is API-server data), the stored podLastSeen,
		// and what the harness saw (record created / bound for the live pod, collector passes while the
		// pod was alive)
		last := p.snap.LastSeen
		if p.snap.Created.After(last) {
			last = p.snap.Created
		}
		if o, ok := w.observed[name]; ok && o.After(last) {
			last = o
		}
		for _, a := range p.snap.Allocs {
			if !a.Fixed {
				continue
			}
			switch a.Strategy {
			case v1beta1.ReleaseStrategyNever:
				w.violate("C11(b): gc released record %s although allocation %s has strategy Never", name, a.ENI)
			case v1beta1.ReleaseStrategyTTL:
				d, err := time.ParseDuration(a.After)
				if err != nil || d < 0 {
					w.violate("C11(b): gc released record %s although allocation %s has unusable releaseAfter %q", name, a.ENI, a.After)
					continue
				}
				// the collector read the clock no later than t1
				if last.Add(d).After(t1) {
					w.violate("C11(b): gc released record %s %s after the pod was last seen (%s), TTL %s of allocation %s not elapsed",
						name, t1.Sub(last).Round(time.Second), last.UTC().Format(time.RFC3339), a.After, a.ENI)
				} else if p.snap.LastSeen.IsZero() {
					w.c.Label("gc-release:lastseen-unset-ttl-elapsed-since-creation")
				}
			default:
				w.c.Label("gc-release:strategy-unset")
			}
		}
		w.released[name] = true
	}
}

func (w *c10World) runOp(i int, op c10Op) {
	w.mu.Lock()
	w.step, w.actorK = i, op.K
	w.actor = fmt.Sprintf("%s p=%d", op.K, op.P)
	w.af, w.conflict, w.seen = 0, op.Conflict, map[uint16]bool{}
	w.mu.Unlock()
	w.c.Trace("step %d: %s p=%d n=%d cf=%#x af=%#x conflict=%v mid=%v", i, op.K, op.P, op.N, op.CF, op.AF, op.Conflict, op.Mid)
	switch op.K {
	case "rr": // shorthand: pod controller then PodENI controller on the same name, no faults
		w.runOp(i, c10Op{K: "rpod", P: op.P})
		w.runOp(i, c10Op{K: "reni", P: op.P})
		return
	case "create", "delete", "exit", "gone":
		w.cloud.beginStep(i, 0, nil)
		w.podOp(op.K, op.P, op.N)
	case "nodegone", "nodeback":
		w.cloud.beginStep(i, 0, nil)
		w.nodeOp(op.K, op.N)
	case "release":
		w.cloud.beginStep(i, 0, nil)
		w.releaseNode(op.N)
	case "cniadd":
		w.cloud.beginStep(i, 0, nil)
		w.cniAdd(op.P)
	case "rpod", "reni", "gccr", "gcsec", "gcmem":
		if (op.K == "rpod" || op.K == "reni") && (op.P < 0 || op.P >= len(w.pods)) {
			return
		}
		if o := w.s.Outage; o != nil && i >= o.From && i < o.To {
			op.CF |= o.CF
			w.c.Label("fault:outage")
		}
		var mid func()
		if m := op.Mid; m != nil && w.midAllowed(op, *m) {
			mid = func() { w.runMid(op, *m) }
		}
		if op.K == "gccr" {
			// the collector makes no slot-0 cloud call: its interleaved action runs right after its List
			w.mu.Lock()
			w.afterList = mid
			w.mu.Unlock()
			mid = nil
		}
		w.mu.Lock()
		w.af = op.AF
		w.mu.Unlock()
		w.cloud.beginStep(i, op.CF, mid)
		var pre map[string]c10Pre
		if op.K == "gccr" {
			pre = w.preGC()
			// evidence: a collector pass over a bound record of a running pod whose Node object is missing
			for name, pr := range pre {
				if pr.alive && pr.uidEq && pr.snap.Phase == "Bind" {
					if pod := w.getPodByName(name); pod != nil {
						n := &corev1.Node{}
						if err := w.base.Get(context.Background(), k8stypes.NamespacedName{Name: pod.Spec.NodeName}, n); err != nil {
							w.c.Label("gccr:bound-pod-node-object-missing")
							if !types.PodUseENI(pod) && !w.s.CRD {
								w.c.Label("gccr:bound-unannotated-pod-node-object-missing")
							}
						}
					}
				}
			}
		}
		t0 := time.Now()
		w.reconcile(op.K, op.P)
		t1 := time.Now()
		if op.K == "gccr" {
			w.postGC(pre, t0, t1, op.AF != 0)
		}
		if op.CF != 0 {
			w.c.Label("fault:cloud")
			w.faulted = true
		}
		if op.AF != 0 {
			w.c.Label("fault:api")
			w.faulted = true
		}
	}
	w.mu.Lock()
	w.af = 0
	w.afterList = nil
	w.mu.Unlock()
	w.cloud.beginStep(i, 0, nil)
	w.endStep()
}

func (w *c10World) nested(k string, p int) {
	w.mu.Lock()
	saved := w.actorK
	w.actorK = k
	w.mu.Unlock()
	w.reconcile(k, p)
	w.mu.Lock()
	w.actorK = saved
	w.mu.Unlock()
}

// runMid executes the action that is interleaved with the outer step op.
func (w *c10World) runMid(op c10Op, m c10Mid) {
	w.c.Trace("  [mid] %s p=%d", m.K, m.P)
	w.c.Label("mid:" + op.K + "/" + m.K)
	switch m.K {
	case "rpod", "reni":
		w.nested(m.K, m.P)
	case "gone-rpod", "exit-rpod", "delete-rpod", "create-rpod":
		// the pod leaves (or appears) AND the pod controller reacts, all while the
		// outer controller is inside its cloud call
		w.podOp(strings.TrimSuffix(m.K, "-rpod"), m.P, m.N)
		w.nested("rpod", m.P)
	case "cycle":
		// a whole incarnation passes: the pod is recreated, both controllers run until the record
		// is bound again, the pod leaves and the controllers wind the record down
		w.podOp("create", m.P, m.N)
		for r := 0; r < 4; r++ {
			w.nested("rpod", m.P)
			w.nested("reni", m.P)
		}
		w.podOp("gone", m.P, m.N)
		for r := 0; r < 2; r++ {
			w.nested("rpod", m.P)
			w.nested("reni", m.P)
		}
	default:
		w.podOp(m.K, m.P, m.N)
	}
	w.c.Trace("  [mid end]")
}

// a mid action is only used where it keeps the run deterministic and realistic: the
// outer step drives a single-interface pod or a collector, and a nested reconcile is
// never the same controller on the same object (the work queue excludes that)
func (w *c10World) midAllowed(op c10Op, m c10Mid) bool {
	if m.P < 0 || m.P >= len(w.pods) {
		return false
	}
	if m.K == "cycle" && op.K != "gccr" {
		return false
	}
	switch op.K {
	case "rpod", "reni":
		if len(w.s.Pods[op.P].Nets) != 1 {
			return false
		}
		mk := m.K
		if strings.HasSuffix(mk, "-rpod") {
			mk = "rpod"
		}
		if (mk == "rpod" || mk == "reni") && mk == op.K && m.P == op.P {
			return false
		}
	}
	return true
}

// endStep: oracles evaluated at every quiescent point.
func (w *c10World) endStep() {
	w.checkViol()
	// evidence: a step in which one interface's delete failed while another delete went through
	w.cloud.mu.Lock()
	inj, ok := false, false
	for k := len(w.cloud.calls) - 1; k >= w.callMark; k-- {
		if cl := w.cloud.calls[k]; cl.Kind == "Delete" {
			inj = inj || cl.Injected
			ok = ok || (!cl.Injected && cl.Err == "")
		}
	}
	w.callMark = len(w.cloud.calls)
	w.cloud.mu.Unlock()
	if inj && ok {
		w.c.Label("partial-delete:" + w.actorK)
	}
	if w.cloud.orderTmo {
		w.c.Inconclusive("cloud call ordering wait timed out")
	}
	list := &v1beta1.PodENIList{}
	if err := w.base.List(context.Background(), list); err != nil {
		panic(err)
	}
	ref := map[string]string{}
	for i := range list.Items {
		for _, a := range list.Items[i].Spec.Allocations {
			ref[a.ENI.ID] = list.Items[i].Name
		}
	}
	// C10 (4): no interface created by the pod controller exists without a record
	for _, e := range w.cloud.all() {
		if !e.ByCtl || ref[e.ID] != "" {
			continue
		}
		switch {
		case w.everRef[e.ID]:
			w.c.Fatalf("C10(4): step %d (%s): interface %s (status %s on %q) was referenced by a record, the record is gone but the interface still exists",
				w.step, w.actor, e.ID, e.Status, e.Instance)
		case w.cloud.deleteInjected[e.ID]:
			w.c.Label("leak:rollback-delete-failed")
			w.nt = true
		case w.cloud.deleteInjStep[e.CreatedStep] && !w.cloud.deleteTried[e.ID] && w.known(c10KnownRollback):
			w.c.Label("known:" + c10KnownRollback)
		default:
			w.c.Fatalf("C10(4): step %d (%s): interface %s (created in step %d, status %s) exists in the cloud without a record and no delete of it was failed by injection (delete attempted: %v)",
				w.step, w.actor, e.ID, e.CreatedStep, e.Status, w.cloud.deleteTried[e.ID])
		}
	}
	// evidence: a record whose attach half succeeded (some interface attached, no instance id in the status)
	for i := range list.Items {
		r := &list.Items[i]
		if r.Status.InstanceID != "" || len(r.Spec.Allocations) < 2 {
			continue
		}
		att := 0
		for _, a := range r.Spec.Allocations {
			if e, ok := w.cloud.get(a.ENI.ID); ok && e.Instance != "" {
				att++
			}
		}
		if att > 0 && att < len(r.Spec.Allocations) {
			w.c.Label("half-attached-no-instance-id")
			if p := w.getPodByName(r.Name); p == nil {
				w.c.Label("half-attached-no-instance-id:pod-gone")
			}
		}
	}
	if !w.closed {
		return
	}
	// C10 (1) semantics of "bound"/"unbound" (types.go: "Bind: ENI is bind to ECS", "Unbind: ENI is not bind
	// to ECS"): a record in phase Bind (not being deleted) has its interfaces attached to status.instanceID,
	// a record in phase Unbind has none of them attached
	for i := range list.Items {
		r := &list.Items[i]
		if r.Status.Phase == v1beta1.ENIPhaseUnbind && r.DeletionTimestamp.IsZero() {
			for _, a := range r.Spec.Allocations {
				if e, ok := w.cloud.get(a.ENI.ID); ok && e.Instance != "" {
					w.c.Fatalf("C10(1): step %d (%s): record %s is in phase Unbind but interface %s is still attached (status=%q instance=%q)",
						w.step, w.actor, r.Name, a.ENI.ID, e.Status, e.Instance)
				}
			}
		}
		if r.Status.Phase != v1beta1.ENIPhaseBind || !r.DeletionTimestamp.IsZero() {
			continue
		}
		for _, a := range r.Spec.Allocations {
			e, ok := w.cloud.get(a.ENI.ID)
			if ok && e.Status == aliyunClient.ENIStatusInUse {
				delete(w.envPulled, a.ENI.ID)
			}
			if w.envPulled[a.ENI.ID] {
				continue
			}
			if !ok || e.Status != aliyunClient.ENIStatusInUse || e.Instance != r.Status.InstanceID {
				w.c.Fatalf("C10(1): step %d (%s): record %s is in phase Bind (instance %s) but interface %s is status=%q instance=%q (exists=%v)",
					w.step, w.actor, r.Name, r.Status.InstanceID, a.ENI.ID, e.Status, e.Instance, ok)
			}
		}
	}
}

// known reports whether the class of an open finding is to be excluded. The list is
// /verif/known_findings.json; VERIF_C10_ASSUME_KNOWN=<id>[,<id>] is a development aid
// to run the search behind a finding that has been reported but not listed yet.
func (w *c10World) known(id string) bool {
	if w.noGuard {
		return false
	}
	if vt.Known(id) {
		return true
	}
	for _, k := range strings.Split(os.Getenv("VERIF_C10_ASSUME_KNOWN"), ",") {
		if k == id || k == "all" {
			return true
		}
	}
	return false
}

func c10OursTags() []ecs.Tag {
	return []ecs.Tag{{TagKey: types.NetworkInterfaceTagCreatorKey, TagValue: types.TagTerwayController}, {TagKey: types.TagKeyClusterID, TagValue: c10ClusterID}}
}

// ---------------------------------------------------------------- settle and end-state oracles (C10 3, C11 a)

func (w *c10World) settle(rounds int) {
	w.c.Trace("settle: faults off, node objects back, %d rounds of (pod, pod-eni) per name", rounds)
	for n := 0; n < c10Nodes; n++ {
		cur := &corev1.Node{}
		if err := w.base.Get(context.Background(), k8stypes.NamespacedName{Name: c10NodeName(n)}, cur); err != nil {
			w.nodeOp("nodeback", n)
		}
	}
	w.cloud.mu.Lock()
	w.cloud.nthFail = map[string]bool{}
	w.cloud.mu.Unlock()
	for r := 0; r < rounds; r++ {
		for i := range w.pods {
			w.runOp(1000+r, c10Op{K: "rpod", P: i})
			w.runOp(1000+r, c10Op{K: "reni", P: i})
		}
	}
}

// gcSettle: the backstop path. The pod controller never sees the deletions (it is down); faults
// off, node objects back, rounds of gcCRPodENIs followed by ReconcilePodENI for every name.
func (w *c10World) gcSettle(rounds int) {
	w.c.Trace("gc-settle: faults off, node objects back, pod controller down, %d rounds of gcCR + pod-eni per name", rounds)
	for n := 0; n < c10Nodes; n++ {
		cur := &corev1.Node{}
		if err := w.base.Get(context.Background(), k8stypes.NamespacedName{Name: c10NodeName(n)}, cur); err != nil {
			w.nodeOp("nodeback", n)
		}
	}
	w.cloud.mu.Lock()
	w.cloud.nthFail = map[string]bool{}
	w.cloud.mu.Unlock()
	// what must go: records without a fixed IP whose pod is gone, in a phase such a record can be in
	// (Initial, Bind, Deleting; the other phases are only ever written for fixed-IP records)
	type due struct {
		name string
		snap c10Snap
	}
	var dues []due
	for i := range w.pods {
		name := c10PodName(i)
		rec := w.read(name)
		if !rec.Present || rec.HasFixed || w.getPod(i) != nil {
			continue
		}
		switch rec.Phase {
		case "", "Bind", "Deleting":
			dues = append(dues, due{name, rec})
			w.nt = true
			w.c.Labelf("gc-settle:elastic-orphan-in-%s", c10PhaseName(rec.Phase))
		}
	}
	for r := 0; r < rounds; r++ {
		w.runOp(2000+r, c10Op{K: "gccr"})
		for i := range w.pods {
			w.runOp(2000+r, c10Op{K: "reni", P: i})
		}
	}
	// C10 (3): the pod of a record without fixed IP is deleted => the record disappears and its
	// interfaces are detached and deleted (here without any help from the pod controller)
	for _, d := range dues {
		if rec := w.read(d.name); rec.Present {
			w.c.Fatalf("C10(3): pod %s (no fixed IP) is deleted and the pod controller never saw it; after %d rounds of gcCRPodENIs + ReconcilePodENI its record still exists: phase %q (was %q) deleting=%v allocs=%s",
				d.name, rounds, rec.Phase, d.snap.Phase, rec.Deleting, rec.ident())
		}
		for _, a := range d.snap.Allocs {
			if e, ok := w.cloud.get(a.ENI); ok {
				w.c.Fatalf("C10(3): pod %s (no fixed IP) is deleted, its record is gone but interface %s still exists (status=%q instance=%q)", d.name, a.ENI, e.Status, e.Instance)
			}
		}
	}
}

func (w *c10World) nodeTrunkClass(n int) bool { return w.s.Trunk && n != 2 }

func (w *c10World) endState() {
	for i := range w.pods {
		name := c10PodName(i)
		spec := w.s.Pods[i]
		fixed := false
		for _, n := range spec.Nets {
			fixed = fixed || n.Fixed
		}
		pod := w.getPod(i)
		rec := w.read(name)
		if w.pods[i].inc == 0 {
			continue
		}
		switch {
		case pod == nil && !fixed:
			// C10 (3): deleted pod without fixed IP: record gone (its interfaces are covered by (4))
			w.c.Label("end:elastic-deleted")
			if rec.Present {
				w.c.Fatalf("C10(3): pod %s (no fixed IP) is deleted but after settling its record still exists: phase %q deleting=%v allocs=%s",
					name, rec.Phase, rec.Deleting, rec.ident())
			}
		case pod == nil && fixed:
			w.c.Label("end:fixed-deleted")
			if rec.Present {
				if w.mixedReleased(rec) && w.known(c11KnownMixedRelease) {
					w.c.Label("known:" + c11KnownMixedRelease)
					continue
				}
				for _, a := range rec.Allocs {
					if _, ok := w.cloud.get(a.ENI); !ok {
						w.c.Fatalf("C11(a): retained record %s references interface %s (fixed=%v) which no longer exists (deleted by the cloud with its released instance: %v)",
							name, a.ENI, a.Fixed, w.envDeleted[a.ENI])
					}
				}
			}
		case pod != nil && !c10Exited(pod) && pod.DeletionTimestamp.IsZero() && fixed:
			// C11 (a): the running fixed-IP pod is bound, with the interface and address of its first incarnation
			if !rec.Present {
				w.c.Label("end:fixed-alive-no-record")
				continue
			}
			if !w.managed(pod) {
				w.c.Label("end:fixed-alive-unmanaged")
				continue
			}
			if w.mixedReleased(rec) && w.known(c11KnownMixedRelease) {
				w.c.Label("known:" + c11KnownMixedRelease)
				continue
			}
			rejected := false
			for _, a := range rec.Allocs {
				if w.nodeTrunkClass(w.pods[i].node) && a.Trunk != nil && !*a.Trunk {
					rejected = true
				}
			}
			if rejected {
				w.c.Label("end:fixed-alive-attach-refused")
				continue
			}
			if w.faulted {
				// C11 does not quantify over faults: after a failed attach/status write the record can
				// legitimately be stuck until the pod is deleted again; only safety is judged then
				if rec.Phase != "Bind" || rec.UID != string(pod.UID) {
					w.c.Labelf("end:fixed-alive-not-bound-after-faults:%s", c10PhaseName(rec.Phase))
				} else {
					w.c.Label("end:fixed-alive-bound-after-faults")
				}
				continue
			}
			w.c.Label("end:fixed-alive")
			if rec.Phase != "Bind" || rec.UID != string(pod.UID) {
				w.c.Fatalf("C11(a): fixed-IP pod %s uid=%s is running on %s but after settling its record is phase %q uid=%s deleting=%v",
					name, pod.UID, pod.Spec.NodeName, rec.Phase, rec.UID, rec.Deleting)
			}
			for _, a := range rec.Allocs {
				e, ok := w.cloud.get(a.ENI)
				if !ok || e.Status != aliyunClient.ENIStatusInUse || e.Instance != c10Instance(w.pods[i].node) || e.IPv4 != a.V4 {
					w.c.Fatalf("C11(a): fixed-IP pod %s is bound on %s but interface %s is status=%q instance=%q ipv4=%q, record has ipv4=%q (exists=%v)",
						name, pod.Spec.NodeName, a.ENI, e.Status, e.Instance, e.IPv4, a.V4, ok)
				}
			}
			if w.pods[i].inc > 1 {
				w.c.Label("end:fixed-recreated-bound")
			}
		default:
			w.c.Label("end:other")
		}
	}
}

// ---------------------------------------------------------------- node daemon side (pkg/eni/remote.go)

// cniAdd plays the node daemon serving a CNI ADD for the current instance of pod #i through the
// real Remote.Allocate (the daemon's wait for a usable PodENI record). The control plane is idle
// during the wait (steps are sequential); the wait's backoff is shortened through
// backoff.OverrideBackoff in init().
func (w *c10World) cniAdd(i int) {
	if i < 0 || i >= len(w.pods) {
		return
	}
	pod := w.getPod(i)
	if pod == nil {
		w.c.Label("skip:cniadd")
		return
	}
	var trunk *daemon.ENI
	if w.nodeTrunkClass(w.pods[i].node) {
		trunk = &daemon.ENI{ID: c10TrunkID(w.pods[i].node), MAC: "00:16:3e:aa:aa:aa", Trunk: true}
	}
	r := eni.NewRemote(w.base, trunk)
	ctx, cancel := context.WithTimeout(context.Background(), 10*time.Second)
	defer cancel()
	ch, _ := r.Allocate(ctx, &daemon.CNI{PodName: pod.Name, PodNamespace: pod.Namespace, PodID: pod.Namespace + "/" + pod.Name, PodUID: string(pod.UID)}, &eni.RemoteIPRequest{})
	if ch == nil {
		panic("harness: Remote.Allocate refused a RemoteIP request")
	}
	var resp *eni.AllocResp
	select {
	case resp = <-ch:
	case <-ctx.Done():
		w.c.Inconclusive("Remote.Allocate did not answer within 10 s")
	}
	if resp.Err != nil {
		w.c.Trace("  CNI ADD %s uid=%s -> error: %v", pod.Name, pod.UID, resp.Err)
		w.c.Label("cniadd:refused")
		return
	}
	// an ADD that succeeds returns the interfaces of a record that is Bind for exactly this pod instance
	rec := w.read(pod.Name)
	w.c.Trace("  CNI ADD %s uid=%s -> ok (record phase=%q uid=%s)", pod.Name, pod.UID, rec.Phase, rec.UID)
	w.c.Label("cniadd:ok")
	if !rec.Present || rec.Deleting || rec.Phase != "Bind" || rec.UID != string(pod.UID) {
		w.c.Fatalf("C10(2)/remote: step %d: CNI ADD for pod %s uid=%s succeeded but its record is present=%v phase=%q uid=%s deleting=%v",
			w.step, pod.Name, pod.UID, rec.Present, rec.Phase, rec.UID, rec.Deleting)
	}
	if len(resp.NetworkConfigs) == 0 {
		w.c.Fatalf("C10(2)/remote: step %d: CNI ADD for pod %s uid=%s succeeded without any network resource", w.step, pod.Name, pod.UID)
	}
	want := map[string]bool{}
	for _, a := range rec.Allocs {
		want[a.V4] = true
	}
	for _, nr := range resp.NetworkConfigs {
		for _, nc := range nr.ToRPC() {
			if nc.BasicInfo == nil || nc.BasicInfo.PodIP == nil || !want[nc.BasicInfo.PodIP.IPv4] {
				w.c.Fatalf("C10(2)/remote: step %d: CNI ADD for pod %s returned an address that is not in its record %s", w.step, pod.Name, rec.ident())
			}
		}
	}
	w.mu.Lock()
	for _, a := range rec.Allocs {
		w.added[a.ENI] = [2]string{pod.Name, string(pod.UID)}
	}
	w.mu.Unlock()
}
