package c10loop

// C10 — PodENI follows its state machine and an ENI is never pulled from a live pod.
// C11 — fixed IPs survive recreation; leak GC only reaps what is provably ours and stale.
//
// One interpreter (c10Run) for three generators: closed-loop histories (C10 and C11 a),
// retention populations under gcCRPodENIs (C11 b) and cloud populations under the leak
// collectors (C11 c).

import (
	"context"
	"fmt"
	"strings"
	"testing"
	"time"

	"github.com/aliyun/alibaba-cloud-sdk-go/services/ecs"
	corev1 "k8s.io/api/core/v1"
	metav1 "k8s.io/apimachinery/pkg/apis/meta/v1"
	"pgregory.net/rapid"

	aliyunClient "github.com/AliyunContainerService/terway/pkg/aliyun/client"
	"github.com/AliyunContainerService/terway/pkg/apis/network.alibabacloud.com/v1beta1"
	"github.com/AliyunContainerService/terway/types"
	"github.com/AliyunContainerService/terway/zz_verif/vt"
)

// ---------------------------------------------------------------- interpreter

func c10Run(c *vt.Ctx, s c10Scenario) { c10RunOpt(c, s, false) }

func c10RunOpt(c *vt.Ctx, s c10Scenario, noGuard bool) {
	// process configuration: the zone of the controller process (time.Local is a package variable)
	savedLocal := time.Local
	defer func() { time.Local = savedLocal }()
	if s.TZ == 0 {
		time.Local = time.UTC
	} else {
		time.Local = time.FixedZone(fmt.Sprintf("UTC%+d", s.TZ), s.TZ*3600)
		c.Labelf("tz:%+d", s.TZ)
	}
	w := c10NewWorld(c, s)
	w.noGuard = noGuard
	w.seed()
	for i, op := range s.Ops {
		w.runOp(i, op)
	}
	if s.Settle {
		w.settle(8)
		w.endState()
	}
	if s.GCSettle {
		w.gcSettle(6)
	}
	if el := time.Since(w.start); el > 2*time.Minute {
		// the closed loop relies on "a TTL of >= 5 min cannot elapse during a case"
		c.Inconclusive("case took longer than 2 min")
	}
	creates, rollbackish := 0, false
	for _, cl := range w.cloud.calls {
		if cl.Kind == "Create" && !cl.Injected {
			creates++
		}
		if cl.Kind == "Create" && cl.Injected {
			rollbackish = true
		}
	}
	if creates > 0 {
		c.Label("has-create")
	}
	if rollbackish {
		c.Label("create-failed")
	}
	if w.nt {
		c.NonTrivial()
	}
}

func c10Tags(cluster, creator int, extra bool) []ecs.Tag {
	var out []ecs.Tag
	if extra {
		out = append(out, ecs.Tag{TagKey: "team", TagValue: "x"})
	}
	switch creator {
	case 0:
		out = append(out, ecs.Tag{TagKey: types.NetworkInterfaceTagCreatorKey, TagValue: types.TagTerwayController})
	case 1:
		out = append(out, ecs.Tag{TagKey: types.NetworkInterfaceTagCreatorKey, TagValue: "terway"})
	}
	switch cluster {
	case 0:
		out = append(out, ecs.Tag{TagKey: types.TagKeyClusterID, TagValue: c10ClusterID})
	case 1:
		out = append(out, ecs.Tag{TagKey: types.TagKeyClusterID, TagValue: "c-other"})
	}
	return out
}

// seed installs the population of a C11 scenario: cloud interfaces, records and pods.
func (w *c10World) seed() {
	ctx := context.Background()
	s := w.s
	popID := func(i int) string { return fmt.Sprintf("eni-pop-%d", i) }
	referenced := map[int]bool{}
	for _, r := range s.SeedRecs {
		for _, a := range r.Allocs {
			if a.Pop >= 0 && a.Pop < len(s.SeedENIs) {
				referenced[a.Pop] = true
			}
		}
	}
	reapable, protected := 0, 0
	for i, e := range s.SeedENIs {
		ce := &c10ENI{ID: popID(i), MAC: fmt.Sprintf("00:16:3e:ff:00:%02x", i), Type: e.Type, Status: e.Status, VSw: c10VSw, Zone: c10Zone,
			IPv4: fmt.Sprintf("192.168.200.%d", 10+i), Tags: c10Tags(e.Cluster, e.Creator, e.Extra), Slot: i % 2}
		if e.AgeSec < 0 {
			ce.Created = "2021-13-45 99:00"
		} else {
			ce.Created = w.start.Add(-time.Duration(e.AgeSec) * time.Second).UTC().Format(c10Layout)
		}
		if e.Status == aliyunClient.ENIStatusInUse || e.Status == aliyunClient.ENIStatusDetaching {
			ce.Instance = c10Instance(i % 2)
			if e.Type == aliyunClient.ENITypeMember {
				ce.Trunk = c10TrunkID(i % 2)
			}
		}
		w.cloud.seed(ce)
		ours := e.Cluster == 0 && e.Creator == 0
		listed := (e.Type == aliyunClient.ENITypeSecondary && e.Status == aliyunClient.ENIStatusAvailable) ||
			(e.Type == aliyunClient.ENITypeMember && e.Status == aliyunClient.ENIStatusInUse)
		if ours && e.AgeSec > 600 && !referenced[i] && listed {
			reapable++
		} else {
			protected++
		}
		w.c.Labelf("pop:tags=%d%d", e.Cluster, e.Creator)
		if e.AgeSec >= 590 && e.AgeSec < 600 {
			w.c.Label("pop:age-just-below-grace")
		} else if e.AgeSec > 600 && e.AgeSec <= 630 {
			w.c.Label("pop:age-just-above-grace")
		}
	}
	if len(s.SeedENIs) > 0 {
		w.c.Labelf("pop:reapable=%d", min(reapable, 3))
		if reapable > 0 && protected > 0 {
			w.nt = true
		}
	}
	for _, r := range s.SeedRecs {
		if r.P < 0 || r.P >= len(w.pods) {
			continue
		}
		name := c10PodName(r.P)
		uid := name + "-u1"
		recUID := uid
		if !r.UIDMatch {
			recUID = name + "-u0"
		}
		rec := &v1beta1.PodENI{ObjectMeta: metav1.ObjectMeta{Namespace: c10NS, Name: name, Finalizers: []string{types.FinalizerPodENI},
			CreationTimestamp: metav1.NewTime(w.start.Add(-time.Duration(r.CreatedAgo) * time.Second)),
			Annotations:       map[string]string{types.PodUID: recUID}, Labels: map[string]string{types.ENIRelatedNodeName: c10NodeName(r.Node)}},
			Spec: v1beta1.PodENISpec{Zone: c10Zone}}
		strategies := map[string]bool{}
		for j, a := range r.Allocs {
			al := v1beta1.Allocation{Interface: fmt.Sprintf("eth%d", j), IPv4CIDR: "192.168.0.0/16"}
			if a.Fixed {
				al.AllocationType = v1beta1.AllocationType{Type: v1beta1.IPAllocTypeFixed, ReleaseStrategy: v1beta1.ReleaseStrategy(a.Strategy), ReleaseAfter: a.After}
				strategies["fixed:"+a.Strategy+":"+a.After] = true
			} else {
				al.AllocationType = v1beta1.AllocationType{Type: v1beta1.IPAllocTypeElastic}
				strategies["elastic"] = true
			}
			if a.Pop >= 0 && a.Pop < len(s.SeedENIs) {
				e, _ := w.cloud.get(popID(a.Pop))
				al.ENI = v1beta1.ENI{ID: e.ID, MAC: e.MAC, Zone: c10Zone, VSwitchID: c10VSw}
				al.IPv4 = e.IPv4
			} else {
				id := fmt.Sprintf("eni-r%d-%d", r.P, j)
				ce := &c10ENI{ID: id, MAC: fmt.Sprintf("00:16:3e:ee:%02x:%02x", r.P, j), Type: aliyunClient.ENITypeSecondary, Status: aliyunClient.ENIStatusAvailable,
					VSw: c10VSw, Zone: c10Zone, IPv4: fmt.Sprintf("192.168.100.%d", 10+r.P*4+j), Tags: c10OursTags(), Slot: j % 2,
					Created: w.start.Add(-time.Hour).UTC().Format(c10Layout)}
				if r.Phase == v1beta1.ENIPhaseBind || r.Phase == v1beta1.ENIPhaseDetaching {
					ce.Status, ce.Instance = aliyunClient.ENIStatusInUse, c10Instance(r.Node)
					if w.nodeTrunkClass(r.Node) {
						ce.Type, ce.Trunk = aliyunClient.ENITypeMember, c10TrunkID(r.Node)
					}
				}
				w.cloud.seed(ce)
				al.ENI = v1beta1.ENI{ID: id, MAC: ce.MAC, Zone: c10Zone, VSwitchID: c10VSw}
				al.IPv4 = ce.IPv4
			}
			rec.Spec.Allocations = append(rec.Spec.Allocations, al)
		}
		if len(strategies) > 1 {
			w.nt = w.nt || len(s.SeedENIs) == 0
			w.c.Label("rec:mixed-strategies")
		}
		if err := w.base.Create(ctx, rec); err != nil {
			panic(err)
		}
		rec.Status.Phase = v1beta1.Phase(r.Phase)
		if r.Phase == v1beta1.ENIPhaseBind || r.Phase == v1beta1.ENIPhaseDetaching {
			rec.Status.InstanceID = c10Instance(r.Node)
			if w.nodeTrunkClass(r.Node) {
				rec.Status.TrunkENIID = c10TrunkID(r.Node)
			}
		}
		if r.SeenAgo >= 0 {
			rec.Status.PodLastSeen = metav1.NewTime(w.start.Add(-time.Duration(r.SeenAgo) * time.Second))
		}
		if err := w.base.Status().Update(ctx, rec); err != nil {
			panic(err)
		}
		w.snaps[name] = w.read(name)
		w.gen[name] = 1
		w.c.Labelf("rec:phase=%s", c10PhaseName(r.Phase))
		w.c.Labelf("rec:pod=%s", r.Pod)
		if r.Pod == "absent" && len(strategies) == 1 && strategies["elastic"] {
			w.c.Labelf("rec:elastic-orphan-seeded-in-%s", c10PhaseName(r.Phase))
		}
		// C11 NT rule: last-seen age within one margin of a TTL boundary
		for _, a := range r.Allocs {
			if d, err := time.ParseDuration(a.After); err == nil && a.Fixed && a.Strategy == v1beta1.ReleaseStrategyTTL && r.SeenAgo >= 0 {
				diff := time.Duration(r.SeenAgo)*time.Second - d
				if diff > -30*time.Second && diff < 0 {
					w.nt = w.nt || len(s.SeedENIs) == 0
					w.c.Label("rec:seen-just-inside-ttl")
				} else if diff >= 0 && diff < 30*time.Second {
					w.nt = w.nt || len(s.SeedENIs) == 0
					w.c.Label("rec:seen-just-outside-ttl")
				}
			}
		}
		w.pods[r.P].inc = 1
		if r.Pod != "absent" {
			w.pods[r.P].node = r.Node
			p := w.newPod(r.P, r.Node, uid, w.s.Pods[r.P].Nets)
			if !w.managed(p) {
				w.c.Label("rec:pod-unmanaged")
			} else if !types.PodUseENI(p) && !w.s.CRD {
				w.c.Label("rec:pod-unannotated-on-exclusive-node")
			}
			if r.Pod == "exited" {
				p.Status.Phase = corev1.PodSucceeded
			}
			if err := w.base.Create(ctx, p); err != nil {
				panic(err)
			}
			if r.Pod == "terminating" {
				if err := w.base.Delete(ctx, p); err != nil {
					panic(err)
				}
			}
		}
	}
}

// ---------------------------------------------------------------- generators

func c10GenBits(t *rapid.T, label string, nbits int, pct int) uint16 {
	if rapid.IntRange(0, 99).Draw(t, label+"?") >= pct {
		return 0
	}
	v := uint16(1) << rapid.IntRange(0, nbits-1).Draw(t, label+"a")
	if rapid.IntRange(0, 3).Draw(t, label+"2") == 0 {
		v |= uint16(1) << rapid.IntRange(0, nbits-1).Draw(t, label+"b")
	}
	return v
}

func c10GenNet(t *rapid.T) c10Net {
	n := c10Net{}
	if rapid.IntRange(0, 9).Draw(t, "fixed") < 4 {
		n.Fixed = true
		n.Strategy = rapid.SampledFrom([]string{"TTL", "TTL", "TTL", "Never", ""}).Draw(t, "strategy")
		if n.Strategy == "TTL" {
			// closed loop: long TTLs only, so that retention is unambiguous within a case
			n.After = rapid.SampledFrom([]string{"5m0s", "10m", "1h"}).Draw(t, "after")
		}
	}
	return n
}

// weighted op kinds per generation-time pod state (the generator tracks which pods exist,
// which is determined by the harness' own pod actions; mid actions are ignored there)
var c10KindsByState = map[string][]string{
	"absent":      {"create", "create", "create", "create", "create", "rr", "rpod", "rpod", "reni", "reni", "gccr", "node"},
	"alive":       {"rr", "rr", "rr", "rpod", "rpod", "rpod", "reni", "reni", "reni", "gone", "gone", "delete", "exit", "gccr", "gccr", "gcsec", "gcmem", "node", "node", "cniadd", "cniadd"},
	"terminating": {"rr", "rpod", "rpod", "reni", "reni", "gone", "gone", "gone", "exit", "gccr", "node", "cniadd"},
	"exited":      {"rr", "rr", "rpod", "rpod", "reni", "reni", "gone", "gone", "gone", "delete", "gccr", "node"},
}

var c10Bundles = [][2]uint16{
	{0, c10AFCreate}, {c10CFCreate0, 0}, {c10CFCreate1, 0},
	{c10CFDelete0, c10AFCreate}, {c10CFDelete1, c10AFCreate}, {c10CFDelete0 | c10CFDelete1, c10AFCreate},
	{c10CFCreate1 | c10CFDelete0, 0}, {c10CFCreate0 | c10CFDelete1, 0}, {0, c10AFCreate | c10AFGetENI},
	{0, c10AFReadBack}, {0, c10AFReadBack},
}

// raw op: drawn independently of the history so that rapid can delete any element of the
// list while shrinking; the kind is chosen afterwards from the table of the pod's
// generation-time state
type c10RawOp struct {
	P, KI, N int
	NCF      int // number of cloud fault bits (0..2)
	CFa, CFb int // selectors into the fault bits relevant for the op kind
	Bundle   int // -1 none, else index into c10Bundles (pod controller steps)
	AF       uint16
	Conflict bool
	Mid      *c10Mid
}

// cloud fault bits that can matter for a step of the given kind
var c10CFRelevant = map[string][]uint16{
	"rpod":  {c10CFCreate0, c10CFCreate1, c10CFDelete0, c10CFDelete1, c10CFVSwitch},
	"reni":  {c10CFAttach0, c10CFAttach0, c10CFAttach1, c10CFAttach1, c10CFDetach0, c10CFDetach1, c10CFDelete0, c10CFDelete0, c10CFDelete1, c10CFDelete1, c10CFDescribe},
	"gccr":  {c10CFDescribe},
	"gcsec": {c10CFDescribe, c10CFDelete0, c10CFDelete1},
	"gcmem": {c10CFDescribe, c10CFDetach0, c10CFDetach1},
}

var c10MidKinds = []string{"gone-rpod", "gone-rpod", "gone-rpod", "exit-rpod", "delete-rpod", "gone", "gone", "delete", "exit", "create", "create-rpod", "rpod", "rpod", "reni"}

func c10GenRawOp(np int, pct int) *rapid.Generator[c10RawOp] {
	return rapid.Custom(func(t *rapid.T) c10RawOp {
		r := c10RawOp{P: rapid.IntRange(0, np-1).Draw(t, "p"), KI: rapid.IntRange(0, 63).Draw(t, "ki"), N: rapid.IntRange(0, c10Nodes-1).Draw(t, "n"), Bundle: -1}
		if rapid.IntRange(0, 99).Draw(t, "cf?") < pct {
			r.NCF = rapid.SampledFrom([]int{1, 1, 1, 2}).Draw(t, "ncf")
			r.CFa = rapid.IntRange(0, 63).Draw(t, "cfa")
			r.CFb = rapid.IntRange(0, 63).Draw(t, "cfb")
		}
		r.AF = c10GenBits(t, "af", c10AFBits, pct)
		if pct > 0 && rapid.IntRange(0, 99).Draw(t, "bundle?") < pct {
			// faults between interface creation and record creation (rollback), alone or
			// together with a failing rollback delete
			r.Bundle = rapid.IntRange(0, len(c10Bundles)-1).Draw(t, "bundle")
		}
		if r.AF&(c10AFUpdate|c10AFStatusUpdate) != 0 {
			r.Conflict = rapid.Bool().Draw(t, "conflict")
		}
		if rapid.IntRange(0, 7).Draw(t, "mid?") == 0 {
			m := &c10Mid{K: rapid.SampledFrom(c10MidKinds).Draw(t, "midk"), P: r.P}
			if np > 1 && rapid.IntRange(0, 3).Draw(t, "midother") == 0 {
				m.P = rapid.IntRange(0, np-1).Draw(t, "midp")
			}
			if strings.HasPrefix(m.K, "create") {
				m.N = rapid.IntRange(0, c10Nodes-1).Draw(t, "midn")
			}
			r.Mid = m
		}
		return r
	})
}

func c10GenLoop(t *rapid.T) c10Scenario {
	s := c10Scenario{Settle: true}
	s.Trunk = rapid.Bool().Draw(t, "trunk")
	s.CRD = rapid.Bool().Draw(t, "crd")
	s.Dual = rapid.Bool().Draw(t, "dual")
	s.Cards = rapid.IntRange(1, 2).Draw(t, "cards")
	s.AgeOld = rapid.Bool().Draw(t, "age_old")
	s.TZ = rapid.SampledFrom([]int{0, 0, 0, 8, -8}).Draw(t, "tz")
	if rapid.IntRange(0, 3).Draw(t, "gcsettle") == 0 {
		// the pod controller goes down at the end of the history: only the collector and the
		// PodENI controller clean up
		s.Settle, s.GCSettle = false, true
	}
	np := rapid.IntRange(1, vt.Scale(3, 4)).Draw(t, "npods")
	state := make([]string, np)
	for i := 0; i < np; i++ {
		nets := rapid.SliceOfN(rapid.Custom(func(t *rapid.T) c10Net { return c10GenNet(t) }), 1, 2).Draw(t, "nets")
		if len(nets) == 1 && rapid.IntRange(0, 2).Draw(t, "second") == 0 {
			nets = append(nets, c10GenNet(t))
		}
		// a pod without the pod-eni annotation is served in CRD mode or on the exclusive-ENI node only
		noAnno := rapid.IntRange(0, 2).Draw(t, "noanno") == 0
		s.Pods = append(s.Pods, c10PodSpec{Nets: nets, NoAnno: noAnno})
		state[i] = "absent"
	}
	faulty := rapid.IntRange(0, 3).Draw(t, "faulty") // 0,1: no faults, 2: few, 3: many
	pct := []int{0, 0, 8, 30}[faulty]
	// rapid's slices average about min+5 elements whatever the maximum is; several
	// segments give histories of about 20 (thorough: 30) steps that still shrink to nothing
	var raw []c10RawOp
	for seg := 0; seg < vt.Scale(4, 6); seg++ {
		raw = append(raw, rapid.SliceOfN(c10GenRawOp(np, pct), 0, 12).Draw(t, "ops")...)
	}
	if len(raw) == 0 {
		raw = append(raw, c10GenRawOp(np, pct).Draw(t, "op"))
	}
	if pct > 0 && rapid.IntRange(0, 1).Draw(t, "outage?") == 1 {
		// one kind of cloud call fails for one interface slot during a window of the history
		o := &c10Outage{CF: rapid.SampledFrom([]uint16{c10CFDelete0, c10CFDelete1, c10CFDelete0, c10CFDelete1, c10CFDetach0, c10CFDetach1,
			c10CFAttach0, c10CFAttach1, c10CFAttach0, c10CFAttach1, c10CFCreate0, c10CFCreate1}).Draw(t, "outagecf")}
		o.From = rapid.IntRange(0, len(raw)-1).Draw(t, "outagefrom")
		o.To = o.From + rapid.IntRange(1, 15).Draw(t, "outagelen")
		s.Outage = o
	}
	if pct > 0 {
		s.NthFail = rapid.SliceOfN(rapid.Custom(func(t *rapid.T) c10Nth {
			return c10Nth{Kind: rapid.SampledFrom([]string{"Delete", "Delete", "Detach"}).Draw(t, "nthkind"), N: rapid.IntRange(1, 6).Draw(t, "nth")}
		}), 0, 4).Draw(t, "nthfail")
	}
	podNode := make([]int, np)
	nodeMissing := make([]bool, c10Nodes)
	// Node objects go missing only in a third of the histories (it stalls both controllers)
	nodeChurn := rapid.IntRange(0, 2).Draw(t, "nodechurn") == 0
	for _, r := range raw {
		kinds := c10KindsByState[state[r.P]]
		op := c10Op{P: r.P, K: kinds[r.KI%len(kinds)]}
		if op.K == "node" && !nodeChurn {
			op.K = "rr"
		}
		if op.K == "rr" && (nodeMissing[0] || nodeMissing[1] || nodeMissing[2]) {
			// while a Node object is missing the reconcilers are stalled; let the collector look instead
			op.K = "gccr"
		}
		switch op.K {
		case "node":
			// the Node object of the pod's node (or a drawn node) goes missing / comes back
			n := r.N
			if state[op.P] != "absent" {
				n = podNode[op.P]
			}
			switch {
			case nodeMissing[n]:
				op.K = "nodeback"
			case r.KI/32%2 == 0:
				// the instance behind the node is released: its pods and its Node object vanish, the cloud
				// deletes or detaches the attached interfaces according to their DeleteOnRelease option
				op.K = "release"
				for q := range state {
					if state[q] != "absent" && podNode[q] == n {
						state[q] = "absent"
					}
				}
			default:
				op.K = "nodegone"
			}
			nodeMissing[n] = !nodeMissing[n]
			op.N = n
		case "create":
			op.N = r.N
			if s.Pods[op.P].NoAnno && r.KI/16%4 != 0 {
				op.N = 2
			}
			podNode[op.P] = op.N
			state[op.P] = "alive"
		case "gone":
			state[op.P] = "absent"
		case "delete":
			if state[op.P] == "alive" {
				state[op.P] = "terminating"
			}
		case "exit":
			state[op.P] = "exited"
		case "rpod", "reni", "gccr", "gcsec", "gcmem":
			op.AF, op.Conflict = r.AF, r.Conflict
			rel := c10CFRelevant[op.K]
			if r.NCF >= 1 {
				op.CF |= rel[r.CFa%len(rel)]
			}
			if r.NCF >= 2 {
				op.CF |= rel[r.CFb%len(rel)]
			}
			if op.K == "rpod" && r.Bundle >= 0 {
				op.CF |= c10Bundles[r.Bundle][0]
				op.AF |= c10Bundles[r.Bundle][1]
			}
			op.Mid = r.Mid
		}
		s.Ops = append(s.Ops, op)
	}
	return s
}

var (
	c11GoodAfter = []string{"30s", "1m", "90s", "5m0s", "1h"}
	c11BadAfter  = []string{"", "5", "abc", "1d", "-5m", "-1s"}
)

func c11GenAlloc(t *rapid.T, npop int) c10SeedAlloc {
	a := c10SeedAlloc{Pop: -1}
	if npop > 0 {
		a.Pop = rapid.IntRange(-1, npop-1).Draw(t, "pop")
	}
	if rapid.IntRange(0, 9).Draw(t, "fixed") < 7 {
		a.Fixed = true
		a.Strategy = rapid.SampledFrom([]string{"TTL", "TTL", "TTL", "TTL", "TTL", "TTL", "Never", "Never", "", "Weird"}).Draw(t, "strategy")
		if rapid.IntRange(0, 9).Draw(t, "goodafter") < 8 {
			a.After = rapid.SampledFrom(c11GoodAfter).Draw(t, "after")
		} else {
			a.After = rapid.SampledFrom(c11BadAfter).Draw(t, "badafter")
		}
	}
	return a
}

func c11GenRec(t *rapid.T, p, npop int) (c10SeedRec, c10PodSpec) {
	r := c10SeedRec{P: p}
	r.Phase = rapid.SampledFrom([]string{"", "Bind", "Unbind", "Unbind", "Unbind", "Unbind", "Binding", "Binding", "Detaching", "Detaching", "Deleting"}).Draw(t, "phase")
	r.Pod = rapid.SampledFrom([]string{"absent", "absent", "absent", "alive", "exited", "terminating"}).Draw(t, "pod")
	r.UIDMatch = rapid.Bool().Draw(t, "uidmatch")
	if (r.Phase == "Detaching" || r.Phase == "Deleting") && (r.Pod == "alive" || r.Pod == "terminating") {
		// reachable states only: a record is moved to Detaching/Deleting when its pod instance has
		// left; a pod that exists under the name is then a later incarnation
		r.UIDMatch = false
	}
	na := rapid.IntRange(1, 3).Draw(t, "nallocs")
	ps := c10PodSpec{}
	// a quarter of the pods carry no pod-eni annotation: they are served on the exclusive-ENI node (node-2)
	// or in CRD mode only
	if rapid.IntRange(0, 3).Draw(t, "noanno") == 0 {
		// (reachable states only: a record exists for such a pod because its node is the exclusive-ENI one)
		ps.NoAnno = true
		r.Node = 2
	} else {
		r.Node = rapid.SampledFrom([]int{0, 0, 1, 2}).Draw(t, "node")
	}
	var ttls []time.Duration
	for j := 0; j < na; j++ {
		a := c11GenAlloc(t, npop)
		r.Allocs = append(r.Allocs, a)
		if j < 2 {
			ps.Nets = append(ps.Nets, c10Net{Fixed: a.Fixed, Strategy: a.Strategy, After: a.After})
		}
		if d, err := time.ParseDuration(a.After); err == nil && d > 0 && a.Fixed && a.Strategy == "TTL" {
			ttls = append(ttls, d)
		}
	}
	ref := 5 * time.Minute
	if len(ttls) > 0 {
		ref = ttls[rapid.IntRange(0, len(ttls)-1).Draw(t, "refttl")]
	}
	m := rapid.SampledFrom([]int{3, 5, 10}).Draw(t, "margin")
	refSec := int(ref / time.Second)
	switch rapid.SampledFrom([]string{"fresh", "inside", "outside", "outside", "old", "unset"}).Draw(t, "seen") {
	case "fresh":
		r.SeenAgo = rapid.IntRange(0, 2).Draw(t, "fresh")
	case "inside":
		r.SeenAgo = refSec - m
	case "outside":
		r.SeenAgo = refSec + m
	case "old":
		r.SeenAgo = refSec * 10
	default:
		r.SeenAgo = -1
	}
	if r.SeenAgo >= 0 {
		// the record is at least as old as the last time its pod was seen
		r.CreatedAgo = r.SeenAgo + rapid.SampledFrom([]int{0, 1, 60, 3600}).Draw(t, "createdbefore")
	} else {
		// podLastSeen never set: the creation time is the only anchor, drawn around the TTL like a last-seen age
		r.CreatedAgo = rapid.SampledFrom([]int{0, 1, refSec - m, refSec + m, refSec + m, refSec * 10}).Draw(t, "createdago")
	}
	return r, ps
}

func c11GenRetention(t *rapid.T) c10Scenario {
	s := c10Scenario{CRD: rapid.Bool().Draw(t, "crd"), Trunk: rapid.Bool().Draw(t, "trunk"), Cards: 1}
	n := rapid.IntRange(1, 3).Draw(t, "nrecs")
	for i := 0; i < n; i++ {
		r, ps := c11GenRec(t, i, 0)
		s.SeedRecs = append(s.SeedRecs, r)
		s.Pods = append(s.Pods, ps)
	}
	// histories mix collector passes, pod events and the two reconcilers (a record that is being
	// processed - Binding, Detaching - must keep being observed while its pod exists, then reach
	// Unbind through ReconcilePod/ReconcilePodENI once the pod is gone, then be judged by the collector)
	opGen := rapid.Custom(func(t *rapid.T) c10Op {
		op := c10Op{K: rapid.SampledFrom([]string{"gccr", "gccr", "gccr", "gccr", "gone", "gone", "exit", "delete", "create", "rr", "rr", "rpod", "reni"}).Draw(t, "k")}
		op.P = rapid.IntRange(0, n-1).Draw(t, "p")
		if op.K == "gccr" && rapid.IntRange(0, 9).Draw(t, "af?") == 0 {
			op.AF = uint16(rapid.SampledFrom([]int{c10AFGetPod, c10AFListENI, c10AFStatusUpdate, c10AFStatusPatch, c10AFGetNode}).Draw(t, "af"))
		}
		if op.K == "gccr" && rapid.IntRange(0, 3).Draw(t, "mid?") == 0 {
			// something happens between the collector's List and its walk over the snapshot: a whole
			// pod incarnation (recreated, bound, gone again) or a single pod event / reconcile
			op.Mid = &c10Mid{K: rapid.SampledFrom([]string{"cycle", "cycle", "cycle", "create-rpod", "gone-rpod", "rpod", "reni", "create", "gone"}).Draw(t, "midk"),
				P: rapid.IntRange(0, n-1).Draw(t, "midp")}
		}
		return op
	})
	s.Ops = rapid.SliceOfN(opGen, 1, 8).Draw(t, "ops")
	if rapid.IntRange(0, 2).Draw(t, "script") == 0 {
		// observe -> pod leaves -> controllers finish the transition -> collector judges
		p := rapid.IntRange(0, n-1).Draw(t, "scriptp")
		leave := rapid.SampledFrom([]string{"gone", "gone", "exit"}).Draw(t, "leave")
		for _, k := range [][]string{{"gccr", leave, "rr", "gccr"}, {"gccr", "gccr", leave, "rpod", "reni", "gccr"}, {"gccr", leave, "rr", "rr", "gccr"}}[rapid.IntRange(0, 2).Draw(t, "scriptk")] {
			s.Ops = append(s.Ops, c10Op{K: k, P: p})
		}
		if rapid.Bool().Draw(t, "stale") {
			// and a last pass whose snapshot goes stale: a whole incarnation of the pod passes in between
			s.Ops = append(s.Ops, c10Op{K: "gccr", P: p, Mid: &c10Mid{K: "cycle", P: p}})
		}
	}
	if s.Ops[len(s.Ops)-1].K != "gccr" {
		s.Ops = append(s.Ops, c10Op{K: "gccr"})
	}
	return s
}

func c11GenLeak(t *rapid.T) c10Scenario {
	s := c10Scenario{Trunk: rapid.Bool().Draw(t, "trunk"), Cards: 1}
	s.TZ = rapid.SampledFrom([]int{0, 0, 8, 1, -8, -5}).Draw(t, "tz")
	n := rapid.IntRange(1, vt.Scale(8, 12)).Draw(t, "nenis")
	m := rapid.SampledFrom([]int{3, 5, 20}).Draw(t, "margin")
	var wantRef []int
	for i := 0; i < n; i++ {
		// by construction: start from an interface the collector should reap (ours, stale,
		// listed by one of the two passes) and spoil 0..2 of the conditions
		e := c10SeedENI{AgeSec: rapid.SampledFrom([]int{600 + m, 6000, 86400}).Draw(t, "age")}
		if rapid.Bool().Draw(t, "member") {
			e.Type, e.Status = "Member", "InUse"
		} else {
			e.Type, e.Status = "Secondary", "Available"
		}
		e.Extra = rapid.Bool().Draw(t, "extra")
		for k, nsp := 0, rapid.SampledFrom([]int{0, 0, 1, 1, 1, 2}).Draw(t, "nspoil"); k < nsp; k++ {
			switch rapid.SampledFrom([]string{"cluster", "creator", "age", "age", "status", "type", "ref", "ref"}).Draw(t, "spoil") {
			case "cluster":
				e.Cluster = rapid.IntRange(1, 2).Draw(t, "cluster")
			case "creator":
				e.Creator = rapid.IntRange(1, 2).Draw(t, "creator")
			case "age":
				e.AgeSec = rapid.SampledFrom([]int{0, 30, 600 - m, 600 - m, -1}).Draw(t, "young")
			case "status":
				e.Status = rapid.SampledFrom([]string{"Available", "InUse", "Attaching", "Detaching", "Deleting"}).Draw(t, "status")
			case "type":
				e.Type = rapid.SampledFrom([]string{"Secondary", "Member", "Trunk", "Primary"}).Draw(t, "type")
			case "ref":
				wantRef = append(wantRef, i)
			}
		}
		s.SeedENIs = append(s.SeedENIs, e)
	}
	// records referencing the interfaces chosen above (1..3 allocations each), plus 0..1 unrelated record
	for len(wantRef) > 0 {
		r, ps := c11GenRec(t, len(s.SeedRecs), 0)
		k := min(len(wantRef), len(r.Allocs))
		for j := 0; j < k; j++ {
			r.Allocs[j].Pop = wantRef[j]
		}
		wantRef = wantRef[k:]
		s.SeedRecs = append(s.SeedRecs, r)
		s.Pods = append(s.Pods, ps)
	}
	if rapid.Bool().Draw(t, "extrarec") {
		r, ps := c11GenRec(t, len(s.SeedRecs), 0)
		s.SeedRecs = append(s.SeedRecs, r)
		s.Pods = append(s.Pods, ps)
	}
	nops := rapid.IntRange(1, 4).Draw(t, "nops")
	for i := 0; i < nops; i++ {
		op := c10Op{K: rapid.SampledFrom([]string{"gcsec", "gcmem"}).Draw(t, "k")}
		if rapid.IntRange(0, 9).Draw(t, "f?") == 0 {
			if rapid.Bool().Draw(t, "cloudf") {
				op.CF = uint16(rapid.SampledFrom([]int{c10CFDescribe, c10CFDetach0, c10CFDetach1, c10CFDelete0, c10CFDelete1}).Draw(t, "cf"))
			} else {
				op.AF = c10AFListENI
			}
		}
		s.Ops = append(s.Ops, op)
	}
	return s
}

// ---------------------------------------------------------------- tests

func TestVerifC10ClosedLoop(t *testing.T) { vt.Run(t, c10GenLoop, c10Run) }
func TestVerifC11ClosedLoop(t *testing.T) { vt.Run(t, c10GenLoopFixed, c10Run) }

// C10 over seeded mid-life states: the retention generator's populations (records in every phase,
// backdated podLastSeen so that the TTL collector really gives fixed-IP records up) with both
// reconcilers in the history - the closed loop cannot reach "fixed-IP record in Deleting"
func TestVerifC10SeededStates(t *testing.T) { vt.Run(t, c10GenSeeded, c10Run) }

// c10GenSeeded: the retention populations; half of the cases end with the gc-settle (pod controller
// down), and in a third record 0 is by construction an orphan of a pod without fixed IP: elastic
// allocations only, a phase such a record can be in, pod absent.
func c10GenSeeded(t *rapid.T) c10Scenario {
	s := c11GenRetention(t)
	s.GCSettle = rapid.Bool().Draw(t, "gcsettle")
	if rapid.IntRange(0, 2).Draw(t, "orphan") == 0 {
		r := &s.SeedRecs[0]
		for j := range r.Allocs {
			r.Allocs[j].Fixed, r.Allocs[j].Strategy, r.Allocs[j].After = false, "", ""
		}
		for j := range s.Pods[r.P].Nets {
			s.Pods[r.P].Nets[j] = c10Net{}
		}
		r.Phase = rapid.SampledFrom([]string{"", "", "Bind", "Deleting"}).Draw(t, "orphanphase")
		r.Pod = "absent"
		s.GCSettle = true
	}
	return s
}
func TestVerifC11Retention(t *testing.T) { vt.Run(t, c11GenRetention, c10Run) }
func TestVerifC11LeakGC(t *testing.T)    { vt.Run(t, c11GenLeak, c10Run) }

// c10GenLoopFixed is the closed-loop generator restricted to pods whose first interface
// has a fixed IP (C11 a: recreation under the same name).
func c10GenLoopFixed(t *rapid.T) c10Scenario {
	s := c10GenLoop(t)
	for i := range s.Pods {
		if !s.Pods[i].Nets[0].Fixed {
			s.Pods[i].Nets[0] = c10Net{Fixed: true, Strategy: "TTL", After: "10m"}
		}
	}
	return s
}

// Deterministic witnesses of candidate finding F-7.
func TestVerifC10KnownDetachingFromNonBind(t *testing.T) {
	// pod created, record created (phase initial), pod gone before the attach, pod controller runs again
	s := c10Scenario{Cards: 1, Pods: []c10PodSpec{{Nets: []c10Net{{Fixed: true, Strategy: "TTL", After: "10m"}}}},
		Ops: []c10Op{{K: "create"}, {K: "rpod"}, {K: "gone"}, {K: "rpod"}}}
	vt.Witness(t, "C10", c10KnownDetaching,
		"podDelete on a fixed-IP record whose pod left before the attach finished moves it initial -> Detaching (likewise Binding -> Detaching), edges the documented machine does not have",
		s, func(c *vt.Ctx, s c10Scenario) { c10RunOpt(c, s, true) })
}

func TestVerifC10KnownDetachingFromUnbind(t *testing.T) {
	s := c10Scenario{Cards: 1, Pods: []c10PodSpec{{Nets: []c10Net{{Fixed: true, Strategy: "TTL", After: "10m"}}}},
		Ops: []c10Op{{K: "create"}, {K: "rpod"}, {K: "reni"}, {K: "gone"}, {K: "rpod"}, {K: "reni"}, {K: "rpod"}}}
	vt.Witness(t, "C10", c10KnownDetachingUnbind,
		"a second reconcile of a deleted (or exited) fixed-IP pod moves its record Unbind -> Detaching (and the PodENI controller moves it back), an edge the documented machine does not have",
		s, func(c *vt.Ctx, s c10Scenario) { c10RunOpt(c, s, true) })
}

// Deterministic witness of the rollback finding (guard C10-rollback-stops-at-first-error):
// two-interface pod, the record Create fails, the delete of the first interface fails.
func TestVerifC10KnownRollbackStops(t *testing.T) {
	s := c10Scenario{Cards: 1, Pods: []c10PodSpec{{Nets: []c10Net{{}, {}}}},
		Ops: []c10Op{{K: "create"}, {K: "rpod", AF: c10AFCreate, CF: c10CFDelete0}}}
	vt.Witness(t, "C10", c10KnownRollback,
		"deleteAllENI returns at the first failed delete, so the remaining interfaces created for the pod are not rolled back and exist without a record",
		s, func(c *vt.Ctx, s c10Scenario) { c10RunOpt(c, s, true) })
}

// Deterministic witness of the mixed-pod finding (guard C11-mixed-pod-elastic-eni-deleted-on-release).
func TestVerifC11KnownMixedPodInstanceRelease(t *testing.T) {
	s := c10Scenario{Cards: 1, Settle: true, Pods: []c10PodSpec{{Nets: []c10Net{{Fixed: true, Strategy: "TTL", After: "10m"}, {}}}},
		Ops: []c10Op{{K: "create"}, {K: "rr"}, {K: "release"}, {K: "create", N: 1}}}
	vt.Witness(t, "C11", c11KnownMixedRelease,
		"a pod with a fixed-IP and an elastic interface: the elastic interface is created with DeleteOnRelease=true, ECS deletes it when the node's instance is released, the retained record names a dead interface and the recreated pod is never bound (it does not get its fixed interface back either)",
		s, func(c *vt.Ctx, s c10Scenario) { c10RunOpt(c, s, true) })
}
