package c15gen

import (
	"fmt"
	"runtime/debug"

	"github.com/AliyunContainerService/terway/zz_verif/vt"
)

// NoPanic wraps a run function for `check --replay`: under rapid a panic inside run is
// already a violation (vt.Run records it and rapid catches it), but a replay runs
// without rapid and a panic would kill the test binary (exit 2, reported as
// inconclusive). In replay mode the panic is therefore turned into c.Fatalf.
func NoPanic[S any](run func(*vt.Ctx, S)) func(*vt.Ctx, S) {
	return func(c *vt.Ctx, s S) {
		if !c.Replaying() {
			run(c, s)
			return
		}
		defer func() {
			if r := recover(); r != nil {
				if fmt.Sprintf("%T", r) == "vt.inconclusive" {
					panic(r)
				}
				c.Fatalf("panic: %v\n%s", r, debug.Stack())
			}
		}()
		run(c, s)
	}
}
