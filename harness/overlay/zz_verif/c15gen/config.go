package c15gen

import (
	"fmt"

	"pgregory.net/rapid"
)

func maybe(t *rapid.T, m map[string]any, key string, val func() any) {
	if rapid.IntRange(0, 2).Draw(t, "has_"+key) > 0 {
		m[key] = val()
	}
}

func strList(t *rapid.T, label string, from []string, max int) []any {
	out := []any{}
	for i, n := 0, rapid.IntRange(0, max).Draw(t, label+"_n"); i < n; i++ {
		out = append(out, rapid.SampledFrom(from).Draw(t, label))
	}
	return out
}

// ENIConf builds a well-formed eni_conf document (the terway daemon configuration kept in
// the eni-config ConfigMap / dynamic config ConfigMaps / the config file).
func ENIConf(t *rapid.T) []byte {
	m := map[string]any{}
	maybe(t, m, "version", func() any { return "1" })
	maybe(t, m, "access_key", func() any { return "ak" })
	maybe(t, m, "access_secret", func() any { return "sk" })
	maybe(t, m, "region_id", func() any { return "cn-hangzhou" })
	maybe(t, m, "credential_path", func() any { return "/var/addon/token-config" })
	maybe(t, m, "service_cidr", func() any {
		return rapid.SampledFrom([]string{CIDRv4(t), CIDRv4(t) + "," + CIDRv6(t), "172.16.0.0/16", ""}).Draw(t, "svc")
	})
	maybe(t, m, "vswitches", func() any {
		v := map[string]any{}
		for i, n := 0, rapid.IntRange(0, 3).Draw(t, "nzone"); i < n; i++ {
			v[fmt.Sprintf("cn-hangzhou-%c", 'a'+i)] = strList(t, "vsw", []string{"vsw-1", "vsw-2", "vsw-3"}, 3)
		}
		return v
	})
	maybe(t, m, "eni_tags", func() any { return map[string]any{"k1": "v1", "creator": "x"} })
	maybe(t, m, "max_pool_size", func() any { return rapid.IntRange(-1, 50).Draw(t, "maxpool") })
	maybe(t, m, "min_pool_size", func() any { return rapid.IntRange(-1, 50).Draw(t, "minpool") })
	maybe(t, m, "min_eni", func() any { return rapid.IntRange(-1, 10).Draw(t, "mineni") })
	maybe(t, m, "max_eni", func() any { return rapid.IntRange(-1, 10).Draw(t, "maxeni") })
	maybe(t, m, "prefix", func() any { return "" })
	maybe(t, m, "security_group", func() any { return "sg-0" })
	maybe(t, m, "security_groups", func() any {
		return strList(t, "sg", []string{"sg-1", "sg-2", "sg-3", "sg-4", "sg-5", "sg-6", "sg-7", "sg-8", "sg-9", "sg-10", "sg-11", "sg-12"}, 12)
	})
	maybe(t, m, "eni_cap_ratio", func() any { return rapid.SampledFrom([]float64{0, 0.5, 1, 1.5, 2}).Draw(t, "ratio") })
	maybe(t, m, "eni_cap_shift", func() any { return rapid.IntRange(-3, 3).Draw(t, "shift") })
	maybe(t, m, "vswitch_selection_policy", func() any {
		return rapid.SampledFrom([]string{"", "random", "ordered", "most"}).Draw(t, "vswpol")
	})
	maybe(t, m, "eni_selection_policy", func() any {
		return rapid.SampledFrom([]string{"", "most_ips", "least_ips"}).Draw(t, "enipol")
	})
	maybe(t, m, "ip_stack", func() any { return rapid.SampledFrom([]string{"", "ipv4", "ipv6", "dual"}).Draw(t, "stack") })
	maybe(t, m, "enable_eni_trunking", func() any { return rapid.Bool().Draw(t, "trunk") })
	maybe(t, m, "enable_erdma", func() any { return rapid.Bool().Draw(t, "erdma") })
	maybe(t, m, "custom_stateful_workload_kinds", func() any { return strList(t, "kind", []string{"CloneSet", "foo", ""}, 3) })
	maybe(t, m, "ipam_type", func() any { return rapid.SampledFrom([]string{"", "crd", "preferCRD", "default"}).Draw(t, "ipam") })
	maybe(t, m, "backoff_override", func() any {
		return map[string]any{"default": map[string]any{"Duration": 1000000000, "Factor": 1.5, "Jitter": 0.1, "Steps": 3, "Cap": 0}}
	})
	maybe(t, m, "extra_routes", func() any {
		out := []any{}
		for i, n := 0, rapid.IntRange(0, 2).Draw(t, "nroute"); i < n; i++ {
			out = append(out, map[string]any{"dst": CIDRv4(t)})
		}
		return out
	})
	maybe(t, m, "disable_device_plugin", func() any { return rapid.Bool().Draw(t, "ddp") })
	maybe(t, m, "eni_tag_filter", func() any { return map[string]any{"f": "1"} })
	maybe(t, m, "kube_client_qps", func() any { return rapid.SampledFrom([]float64{0, 5, 20.5}).Draw(t, "qps") })
	maybe(t, m, "kube_client_burst", func() any { return rapid.IntRange(0, 100).Draw(t, "burst") })
	maybe(t, m, "resource_group_id", func() any { return "rg-1" })
	maybe(t, m, "rate_limit", func() any { return map[string]any{"AssignPrivateIpAddresses": rapid.IntRange(-1, 1000).Draw(t, "rl")} })
	maybe(t, m, "enable_patch_pod_ips", func() any { return rapid.Bool().Draw(t, "patch") })
	return MustJSON(m)
}

// ENIConfHostile are hostile eni_conf constants.
var ENIConfHostile = []string{
	`{}`, `null`, `[]`, `{"vswitches":null}`, `{"vswitches":{"z":null}}`, `{"vswitches":{"z":[null]}}`, `{"eni_tags":null}`,
	`{"security_groups":[null]}`, `{"eni_cap_ratio":1e400}`, `{"eni_cap_ratio":"1"}`, `{"max_pool_size":1e3}`,
	`{"max_pool_size":9223372036854775808}`, `{"enable_patch_pod_ips":null}`, `{"backoff_override":{"a":null}}`,
	`{"backoff_override":{"a":{"Duration":"1s"}}}`, `{"extra_routes":[null]}`, `{"ip_stack":"IPv4"}`, `{"rate_limit":{"":-1}}`,
	`{"VERSION":"1","version":"2"}`, "\xef\xbb\xbf{}", `{"kube_client_qps":1e39}`, `{"eni_cap_shift":-9223372036854775808}`,
}

// CNIConf builds one well-formed terway CNI plugin configuration (a map, so that callers
// can embed it in a conflist).
func CNIConf(t *rapid.T) map[string]any {
	m := map[string]any{"type": "terway"}
	maybe(t, m, "cniVersion", func() any { return rapid.SampledFrom([]string{"0.3.0", "0.3.1", "0.4.0", "1.0.0"}).Draw(t, "ver") })
	maybe(t, m, "name", func() any { return "terway" })
	maybe(t, m, "veth_prefix", func() any { return "cali" })
	maybe(t, m, "eniip_virtual_type", func() any {
		return rapid.SampledFrom([]string{"", "Veth", "veth", "IPVlan", "ipvlan", "IPVlan", "ipvlan", "datapathv2", "DataPathV2", "vlan"}).Draw(t, "vt")
	})
	maybe(t, m, "host_stack_cidrs", func() any {
		out := []any{}
		for i, n := 0, rapid.IntRange(0, 2).Draw(t, "ncidr"); i < n; i++ {
			out = append(out, rapid.SampledFrom([]string{CIDRv4(t), CIDRv4(t), CIDRv6(t), "169.254.20.10/32", MappedCIDR(t)}).Draw(t, "hs"))
		}
		return out
	})
	maybe(t, m, "disable_host_peer", func() any { return rapid.Bool().Draw(t, "dhp") })
	maybe(t, m, "vlan_strip_type", func() any { return rapid.SampledFrom([]string{"", "filter", "vlan"}).Draw(t, "vst") })
	maybe(t, m, "mtu", func() any { return rapid.SampledFrom([]int{0, 1500, 8500, 9001, 68}).Draw(t, "mtu") })
	maybe(t, m, "bandwidth_mode", func() any { return rapid.SampledFrom([]string{"", "edt", "tc"}).Draw(t, "bwm") })
	maybe(t, m, "enable_network_priority", func() any { return rapid.Bool().Draw(t, "prio") })
	maybe(t, m, "debug", func() any { return rapid.Bool().Draw(t, "debug") })
	maybe(t, m, "network_policy_provider", func() any { return rapid.SampledFrom([]string{"iptables", "ebpf", ""}).Draw(t, "npp") })
	maybe(t, m, "capabilities", func() any { return map[string]any{"bandwidth": true, "portMappings": true} })
	maybe(t, m, "runtimeConfig", func() any {
		rc := map[string]any{}
		maybe(t, rc, "bandwidth", func() any {
			return map[string]any{
				"ingressRate": rapid.SampledFrom([]int64{0, 1, 7, 8, 1000000, 1 << 40}).Draw(t, "ir"), "ingressBurst": 2147483647,
				"egressRate": rapid.SampledFrom([]int64{0, 1, 7, 8, 1000000, 1 << 40}).Draw(t, "er"), "egressBurst": 2147483647,
			}
		})
		maybe(t, rc, "portMappings", func() any {
			return []any{map[string]any{"hostPort": 8080, "containerPort": 80, "protocol": "tcp", "hostIP": "0.0.0.0"}}
		})
		maybe(t, rc, "dns", func() any {
			return map[string]any{"servers": []any{"10.0.0.10"}, "searches": []any{"svc.cluster.local"}, "options": []any{"ndots:5"}}
		})
		return rc
	})
	maybe(t, m, "ipam", func() any { return map[string]any{"type": "host-local"} })
	maybe(t, m, "dns", func() any { return map[string]any{"nameservers": []any{"1.1.1.1"}} })
	maybe(t, m, "prevResult", func() any {
		return map[string]any{"cniVersion": "0.4.0", "interfaces": []any{map[string]any{"name": "eth0"}}, "ips": []any{}}
	})
	return m
}

// MappedCIDR draws a CIDR written in IPv4-mapped / IPv4-compatible IPv6 notation
// (net.ParseCIDR accepts it and returns a 16-byte address with a 16-byte mask), with
// prefix lengths around the 96-bit boundary where the embedded IPv4 part starts.
func MappedCIDR(t *rapid.T) string {
	n := rapid.OneOf(rapid.IntRange(96, 128), rapid.IntRange(96, 128), rapid.IntRange(0, 128)).Draw(t, "mappedlen")
	switch rapid.IntRange(0, 3).Draw(t, "mappedform") {
	case 0, 1:
		return fmt.Sprintf("::ffff:%s/%d", IPv4(t), n)
	case 2:
		return fmt.Sprintf("::ffff:%x:%x/%d", rapid.IntRange(0, 0xffff).Draw(t, "hi"), rapid.IntRange(0, 0xffff).Draw(t, "lo"), n)
	default:
		return fmt.Sprintf("::%s/%d", IPv4(t), n)
	}
}

// HostStackHostile are hostile host_stack_cidrs entries.
var HostStackHostile = []string{"::ffff:100.64.0.0/106", "::ffff:169.254.20.10/128", "::ffff:10.0.0.0/96", "::ffff:10.0.0.0/104",
	"::ffff:0:0/96", "::ffff:a00:0/120", "::10.0.0.0/104", "::/0", "::/96", "::ffff:10.0.0.0/95", "0.0.0.0/0", "255.255.255.255/32",
	"10.0.0.1/24", "fd00::/8", "64:ff9b::10.0.0.0/104", "::ffff:10.0.0.0/129", "10.0.0.0/33", "::ffff:10.0.0.0", "", " "}

// CNIConfHostile are hostile CNI configuration constants.
var CNIConfHostile = []string{
	`{"type":"terway","eniip_virtual_type":"IPVlan","host_stack_cidrs":["169.254.20.10/32","::ffff:100.64.0.0/106"]}`,
	`{"type":"terway","eniip_virtual_type":"ipvlan","host_stack_cidrs":["::ffff:10.0.0.0/96"]}`,
	`{"type":"terway","eniip_virtual_type":"IPVlan","host_stack_cidrs":["::ffff:a00:0/128","::10.0.0.0/104","fd00::/64"]}`,
	`{}`, `null`, `[]`, `{"type":null}`, `{"type":1}`, `{"mtu":"1500"}`, `{"mtu":1e400}`, `{"mtu":-1}`, `{"host_stack_cidrs":[null]}`,
	`{"host_stack_cidrs":["x"]}`, `{"runtimeConfig":null}`, `{"runtimeConfig":{"bandwidth":null}}`,
	`{"runtimeConfig":{"bandwidth":{"egressRate":-8}}}`, `{"runtimeConfig":{"bandwidth":{"egressRate":9223372036854775807}}}`,
	`{"runtimeConfig":{"portMappings":[null]}}`, `{"ipam":null}`, `{"prevResult":null}`, `{"prevResult":{"a":1}}`, `{"plugins":null}`,
	`{"plugins":[]}`, `{"plugins":[null]}`, `{"plugins":[{}]}`, `{"plugins":{"a":{"type":"terway"}}}`, `{"plugins":[{"type":"terway"},{"type":"cilium-cni"}]}`,
	`{"type":"terway","eniip_virtual_type":1}`, `{"type":"terway","network_policy_provider":1}`, `{"type":"cilium-cni"}`, `{"type":"portmap"}`,
}
