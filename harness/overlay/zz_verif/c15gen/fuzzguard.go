package c15gen

import (
	"crypto/sha256"
	"fmt"
	"os"
	"path/filepath"
	"strconv"
	"strings"
	"testing"
)

// FuzzGuard is deferred at the top of a fuzz function: `defer g.FuzzGuard(t, "FuzzX", args...)()`.
// When the input fails (panic or Fatalf) and no crasher has been recorded yet it writes
// the input as a corpus file under testdata/fuzz/<name>/ of the working directory. The
// go fuzzer does that itself for inputs it generated, but NOT for a failing f.Add seed
// (it only reports "seed#N"); with this file the driver reports a seed failure as a
// violation with a re-runnable input instead of an inconclusive run.
func FuzzGuard(t *testing.T, name string, args ...any) func() {
	return func() {
		r := recover()
		if r == nil && !t.Failed() {
			return
		}
		writeCorpusFile(name, args)
		if r != nil {
			panic(r)
		}
	}
}

func writeCorpusFile(name string, args []any) {
	dir := filepath.Join("testdata", "fuzz", name)
	if ents, err := os.ReadDir(dir); err == nil && len(ents) > 0 {
		return
	}
	var sb strings.Builder
	sb.WriteString("go test fuzz v1\n")
	for _, a := range args {
		switch v := a.(type) {
		case string:
			fmt.Fprintf(&sb, "string(%s)\n", strconv.Quote(v))
		case []byte:
			fmt.Fprintf(&sb, "[]byte(%s)\n", strconv.Quote(string(v)))
		case bool:
			fmt.Fprintf(&sb, "bool(%v)\n", v)
		case uint8:
			fmt.Fprintf(&sb, "uint8(%d)\n", v)
		case uint32:
			fmt.Fprintf(&sb, "uint32(%d)\n", v)
		default:
			return // unsupported argument type: leave it to the fuzzer
		}
	}
	if os.MkdirAll(dir, 0o755) != nil {
		return
	}
	sum := sha256.Sum256([]byte(sb.String()))
	_ = os.WriteFile(filepath.Join(dir, fmt.Sprintf("seed-%x", sum[:8])), []byte(sb.String()), 0o644)
}
