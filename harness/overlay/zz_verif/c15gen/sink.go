package c15gen

import (
	"testing"

	"github.com/AliyunContainerService/terway/zz_verif/vt"
)

// Sink is what an oracle needs from its driver, so that the same oracle function serves
// the rapid property (driver: *vt.Ctx) and the native fuzz target (driver: FuzzSink).
type Sink interface {
	Label(string)
	Labelf(string, ...any)
	NonTrivial()
	Fatalf(string, ...any)
	Inconclusive(string)
}

// Adapt turns an oracle over Sink into a vt run function.
func Adapt[S any](core func(Sink, S)) func(*vt.Ctx, S) {
	return func(c *vt.Ctx, s S) { core(c, s) }
}

// FuzzSink drives an oracle from a native fuzz target: a panic or Fatalf fails the
// input (the fuzzer saves it as a crasher), labels are dropped.
type FuzzSink struct{ T *testing.T }

func (f FuzzSink) Label(string)               { /* no histogram under the fuzzer */ }
func (f FuzzSink) Labelf(string, ...any)      {}
func (f FuzzSink) NonTrivial()                {}
func (f FuzzSink) Fatalf(s string, a ...any)  { f.T.Fatalf(s, a...) }
func (f FuzzSink) Inconclusive(reason string) { f.T.Skip(reason) }

// Hostile constants of DESIGN §3 C15, as fuzz seeds.
var FuzzHostile = []string{"", " ", "1", "1e400", "-1M", "٣M", "null", "{}", "[]", "[null]", "\x00", "{\"a\":",
	"[[[[[[[[[[[[[[[[[[[[[[[[[[[[[[[[[[[[[[[[", "{\"a\":{\"a\":{\"a\":{\"a\":{\"a\":{\"a\":{\"a\":{\"a\":1}}}}}}}}"}
