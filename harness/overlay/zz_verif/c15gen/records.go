package c15gen

import (
	"fmt"

	"pgregory.net/rapid"
)

// Fixed facts of the node the stored-record harnesses pretend to run on.
const (
	RecENIID  = "eni-1"
	RecENIMAC = "00:16:3e:00:00:01"
)

// RecIPv4 / RecIPv6 are the addresses the (stub) cloud reports on RecENIID.
var (
	RecIPv4 = []string{"10.0.0.1", "10.0.0.2", "10.0.0.3", "10.0.0.4"}
	RecIPv6 = []string{"fd00::1", "fd00::2", "fd00::3"}
)

// NetConfJSON builds the JSON text the daemon keeps in PodResources.NetConf (a list of
// rpc.NetConf rendered with encoding/json).
func NetConfJSON(t *rapid.T) string { return NetConfJSONFor(t, false) }

// NetConfJSONFor: with loopbackENI the ENI MAC is mostly the all-zero MAC of the loopback
// device, which is the one "physical" device every network namespace has, so that code
// looking the ENI up by MAC finds a device.
func NetConfJSONFor(t *rapid.T, loopbackENI bool) string {
	macs := []string{RecENIMAC, "00:00:00:00:00:00", "", "00:16:3e:ff:ff:ff"}
	if loopbackENI {
		// (the netlink library reports an all-zero hardware address as empty)
		macs = []string{"", "", "", "", RecENIMAC, "00:00:00:00:00:00"}
	}
	confs := []any{}
	for i, n := 0, rapid.IntRange(0, 2).Draw(t, "nnetconf"); i < n; i++ {
		ipset := func(label string, v4, v6 string) any {
			m := map[string]any{}
			if rapid.IntRange(0, 3).Draw(t, label+"4") > 0 {
				m["IPv4"] = v4
			}
			if rapid.IntRange(0, 3).Draw(t, label+"6") > 0 {
				m["IPv6"] = v6
			}
			return m
		}
		nc := map[string]any{}
		basic := map[string]any{}
		often := func(m map[string]any, key string, val func() any) {
			if loopbackENI && rapid.IntRange(0, 9).Draw(t, "keep_"+key) > 0 {
				m[key] = val()
				return
			}
			maybe(t, m, key, val)
		}
		often(basic, "PodIP", func() any {
			return ipset("podip", rapid.SampledFrom(RecIPv4).Draw(t, "p4"), rapid.SampledFrom(RecIPv6).Draw(t, "p6"))
		})
		maybe(t, basic, "PodCIDR", func() any { return ipset("podcidr", "10.0.0.0/24", "fd00::/64") })
		maybe(t, basic, "GatewayIP", func() any { return ipset("gw", "10.0.0.253", "fd00::fffd") })
		maybe(t, basic, "ServiceCIDR", func() any { return ipset("svc", "172.16.0.0/16", "fd01::/108") })
		often(nc, "BasicInfo", func() any { return basic })
		often(nc, "ENIInfo", func() any {
			e := map[string]any{"MAC": rapid.SampledFrom(macs).Draw(t, "ncmac")}
			maybe(t, e, "Trunk", func() any { return rapid.Bool().Draw(t, "nctrunk") })
			maybe(t, e, "Vid", func() any { return rapid.IntRange(0, 4095).Draw(t, "vid") })
			maybe(t, e, "GatewayIP", func() any { return ipset("enigw", "10.0.0.253", "fd00::fffd") })
			return e
		})
		maybe(t, nc, "Pod", func() any {
			return map[string]any{"Ingress": 1048576, "Egress": 1048576, "NetworkPriority": "burstable"}
		})
		maybe(t, nc, "IfName", func() any { return rapid.SampledFrom([]string{"", "eth0", "eth1"}).Draw(t, "ncif") })
		maybe(t, nc, "ExtraRoutes", func() any { return []any{map[string]any{"Dst": "192.168.0.0/16"}} })
		maybe(t, nc, "DefaultRoute", func() any { return true })
		confs = append(confs, nc)
	}
	return string(MustJSON(confs))
}

// PodResources builds one well-formed record of the daemon's resource database
// (types/daemon.PodResources as JSON), in the current and in the legacy layout.
func PodResources(t *rapid.T) []byte {
	pod := map[string]any{
		"Name": Name(t), "Namespace": rapid.SampledFrom([]string{"default", "kube-system", "ns"}).Draw(t, "ns"),
		"TcIngress": 0, "TcEgress": rapid.SampledFrom([]uint64{0, 1 << 20}).Draw(t, "tc"),
		"PodNetworkType": rapid.SampledFrom([]string{"ENIMultiIP", "VPCENI", "VPCIP", ""}).Draw(t, "pnt"),
		"PodIP":          "", "PodIPs": map[string]any{"IPv4": rapid.SampledFrom(RecIPv4).Draw(t, "pip"), "IPv6": nil},
		"SandboxExited": rapid.Bool().Draw(t, "exited"),
		"EipInfo":       map[string]any{"PodEip": false, "PodEipID": "", "PodEipIP": "", "PodEipBandWidth": 0, "PodEipChargeType": "", "PodEipISP": "", "PodEipPoolID": "", "PodEipBandwidthPackageID": ""},
		"IPStickTime":   rapid.SampledFrom([]int64{0, 300000000000}).Draw(t, "stick"),
		"PodENI":        rapid.Bool().Draw(t, "podeni"), "PodUID": Name(t), "NetworkPriority": "", "ERdma": rapid.Bool().Draw(t, "erdma"),
	}
	res := []any{}
	for i, n := 0, rapid.IntRange(0, 3).Draw(t, "nres"); i < n; i++ {
		typ := rapid.SampledFrom([]string{"eniIp", "eniIp", "eniIp", "eni", "eip", ""}).Draw(t, "rtype")
		item := map[string]any{"type": typ, "extra_eip_info": nil}
		v4 := rapid.SampledFrom(append([]string{"", "10.0.9.9"}, RecIPv4...)).Draw(t, "r4")
		v6 := rapid.SampledFrom(append([]string{"", "fd00::99"}, RecIPv6...)).Draw(t, "r6")
		mac := rapid.SampledFrom([]string{RecENIMAC, "00:16:3e:ff:ff:ff"}).Draw(t, "rmac")
		if rapid.IntRange(0, 3).Draw(t, "legacy") == 0 {
			// legacy layout: id = "<mac>.<ipv4>", no eni_id
			item["id"] = fmt.Sprintf("%s.%s", mac, v4)
			item["eni_id"], item["eni_mac"], item["ipv4"], item["ipv6"] = "", "", "", ""
		} else {
			item["id"] = fmt.Sprintf("%s.%s", mac, v4)
			item["eni_id"] = rapid.SampledFrom([]string{RecENIID, RecENIID, "eni-gone"}).Draw(t, "reni")
			item["eni_mac"], item["ipv4"], item["ipv6"] = mac, v4, v6
		}
		res = append(res, item)
	}
	rec := map[string]any{"Resources": res, "PodInfo": pod, "NetNs": "/proc/1/ns/net", "ContainerID": "abc", "NetConf": NetConfJSON(t)}
	return MustJSON(rec)
}

// PodResourcesHostile are hostile stored-record constants.
var PodResourcesHostile = []string{
	`{}`, `null`, `{"PodInfo":null}`, `{"Resources":null,"PodInfo":{}}`, `{"Resources":[null],"PodInfo":{}}`,
	`{"Resources":[{"type":"eniIp"}],"PodInfo":{"Name":"a","Namespace":"b"}}`,
	`{"Resources":[{"type":"eniIp","id":""}],"PodInfo":{}}`, `{"Resources":[{"type":"eniIp","id":"."}],"PodInfo":{}}`,
	`{"Resources":[{"type":"eniIp","id":"00:16:3e:00:00:01"}],"PodInfo":{}}`,
	`{"Resources":[{"type":"eniIp","id":"00:16:3e:00:00:01."}],"PodInfo":{}}`,
	`{"Resources":[{"type":"eniIp","id":"00:16:3e:00:00:01.10.0.0.2"}],"PodInfo":{}}`,
	`{"Resources":[{"type":"eniIp","eni_id":"eni-1","ipv4":"x"}],"PodInfo":{}}`,
	`{"Resources":[{"type":"eniIp","eni_id":"eni-1","ipv6":"10.0.0.2"}],"PodInfo":{}}`,
	`{"Resources":[{"type":"eniIp","eni_id":"eni-1","ipv4":"fd00::1","ipv6":"10.0.0.2"}],"PodInfo":{}}`,
	`{"Resources":[{"type":"eniIp","eni_id":"eni-1","ipv4":"10.0.0.2%eth0"}],"PodInfo":{}}`,
	`{"Resources":[{"type":"eniIp","eni_id":"eni-gone"},{"type":"eniIp","eni_id":"eni-gone"},{"type":"eniIp","eni_id":"eni-gone"}],"PodInfo":{}}`,
	`{"PodInfo":{"PodNetworkType":"ENIMultiIP"},"NetConf":"[null]"}`, `{"PodInfo":{"PodNetworkType":"ENIMultiIP"},"NetConf":"null"}`,
	`{"PodInfo":{"PodNetworkType":"ENIMultiIP"},"NetConf":"[{\"BasicInfo\":{\"PodIP\":{}},\"ENIInfo\":{}}]"}`,
	`{"PodInfo":{"PodNetworkType":"ENIMultiIP"},"NetConf":"[{\"BasicInfo\":{\"PodIP\":{\"IPv4\":\"x\"}},\"ENIInfo\":{\"MAC\":\"00:00:00:00:00:00\"}}]"}`,
	`{"PodInfo":{"PodIPs":{"IPv4":"AAAA"}}}`, `{"PodInfo":{"IPStickTime":"5m"}}`, `{"NetNs":null,"ContainerID":null,"PodInfo":{}}`,
}
