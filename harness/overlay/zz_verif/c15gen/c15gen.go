// Package c15gen holds the input generators shared by the C15 harnesses ("user
// controlled input can be rejected but can never crash a component").
//
// Every entry point is fed from three generators mixed 1:1:1:
//
//	valid    a structured, well-formed value built by construction
//	mutated  a well-formed value with exactly one mutation (type swap, truncation,
//	         huge number, unicode, empty, null, byte flip, duplicated slice …)
//	raw      a raw byte string (random bytes / random string over the field's
//	         alphabet / a hostile constant)
//
// All randomness is drawn from *rapid.T here, at generation time; the scenario only
// stores the resulting bytes, so that shrinking and replay work on plain data.
package c15gen

import (
	"encoding/hex"
	"encoding/json"
	"fmt"
	"strings"
	"unicode/utf8"

	"pgregory.net/rapid"
)

// Bytes is a byte string that serialises readably: as {"s": "..."} when it is valid
// UTF-8 (round-trips exactly through encoding/json) and as {"x": "hex"} otherwise.
type Bytes []byte

type bytesJSON struct {
	S *string `json:"s,omitempty"`
	X *string `json:"x,omitempty"`
}

func (b Bytes) MarshalJSON() ([]byte, error) {
	if utf8.Valid(b) {
		s := string(b)
		return json.Marshal(bytesJSON{S: &s})
	}
	x := hex.EncodeToString(b)
	return json.Marshal(bytesJSON{X: &x})
}

func (b *Bytes) UnmarshalJSON(in []byte) error {
	var v bytesJSON
	if err := json.Unmarshal(in, &v); err != nil {
		return err
	}
	switch {
	case v.X != nil:
		d, err := hex.DecodeString(*v.X)
		if err != nil {
			return err
		}
		*b = d
	case v.S != nil:
		*b = []byte(*v.S)
	default:
		*b = nil
	}
	return nil
}

func (b Bytes) String() string { return string(b) }

const (
	KindValid   = "valid"
	KindMutated = "mutated"
	KindRaw     = "raw"
)

// Kind draws one of the three generator kinds uniformly.
func Kind(t *rapid.T) string {
	return rapid.SampledFrom([]string{KindValid, KindMutated, KindRaw}).Draw(t, "kind")
}

// Hostile constants used by every field (DESIGN §3 C15).
var Hostile = []string{
	"", " ", "\t", "\n", "1", "0", "-1", "1e400", "-1M", "٣M", "٣", "null", "true", "[]", "{}", "\"\"",
	"[null]", "{\"\":null}", "NaN", "Inf", "+Inf", "-0", "0x10", "1_0", ".", "..", "/", ":", "::", "%",
	"\x00", "\xff\xfe", "\xef\xbb\xbf{}", "1.7976931348623157e309", "18446744073709551616",
	"-9223372036854775809", "99999999999999999999999999999999999999", "{", "[", "\"", "{\"a\":",
	strings.Repeat("[", 200), strings.Repeat("{\"a\":", 100) + "1" + strings.Repeat("}", 100),
	strings.Repeat("9", 400), strings.Repeat("A", 300), "‮", "\U0001F600", "İ", "ǅ", "ß", "K", "ſ",
}

// JSONAlphabet is the alphabet of raw strings aimed at JSON parsers.
const JSONAlphabet = `{}[]",:0123456789.-+eEnulltruefalse\ abcxyz` + "\n"

// Raw draws a raw byte string.
func Raw(t *rapid.T, alphabet string, extraHostile []string) Bytes {
	switch rapid.IntRange(0, 3).Draw(t, "rawcls") {
	case 0:
		return Bytes(rapid.SliceOfN(rapid.Byte(), 0, 48).Draw(t, "bytes"))
	case 1:
		if alphabet == "" {
			alphabet = JSONAlphabet
		}
		rs := []rune(alphabet)
		n := rapid.IntRange(0, 40).Draw(t, "n")
		var sb strings.Builder
		for i := 0; i < n; i++ {
			sb.WriteRune(rs[rapid.IntRange(0, len(rs)-1).Draw(t, "r")])
		}
		return Bytes(sb.String())
	case 2:
		if len(extraHostile) > 0 {
			return Bytes(rapid.SampledFrom(extraHostile).Draw(t, "hostile"))
		}
		fallthrough
	default:
		return Bytes(rapid.SampledFrom(Hostile).Draw(t, "hostile"))
	}
}

// hostile JSON values a node can be replaced by (type swap, huge number, unicode,
// empty, null, deep nesting).
var jsonSwaps = []string{
	`null`, `true`, `false`, `0`, `-1`, `1`, `1e400`, `-1e400`, `1.5`, `18446744073709551616`,
	`-9223372036854775809`, `99999999999999999999999999999999999999`, `2147483648`, `-2147483649`,
	`4294967296`, `""`, `" "`, `"0"`, `"-1"`, `"null"`, `"٣"`, `"\u0000"`, `"\ud800"`, `"😀"`, `"a/b"`,
	`"1.2.3.4"`, `"1.2.3.4/33"`, `"::"`, `"::/129"`, `"0.0.0.0/0"`, `"::ffff:1.2.3.4"`, `"fe80::1%eth0"`,
	`[]`, `{}`, `[null]`, `[[]]`, `[{}]`, `{"":null}`, `{"a":{"b":{"c":[]}}}`, `[1,"a",null]`,
	`"` + strings.Repeat("A", 300) + `"`, strings.Repeat("[", 60) + strings.Repeat("]", 60),
}

// MutateJSON returns valid with exactly one mutation. valid must be well-formed JSON;
// the result may or may not be.
func MutateJSON(t *rapid.T, valid []byte) Bytes {
	cls := rapid.IntRange(0, 6).Draw(t, "mutcls")
	if cls == 6 {
		// a string node that itself holds a JSON document (e.g. PodResources.NetConf):
		// mutate the inner document and embed it again
		var tree any
		if err := json.Unmarshal(valid, &tree); err == nil {
			var paths [][]any
			collectPaths(tree, nil, &paths)
			var inner [][]any
			for _, p := range paths {
				if str, ok := nodeAt(tree, p).(string); ok && len(str) > 1 && (str[0] == '{' || str[0] == '[') && json.Valid([]byte(str)) {
					inner = append(inner, p)
				}
			}
			if len(inner) > 0 {
				p := inner[rapid.IntRange(0, len(inner)-1).Draw(t, "innernode")]
				mutated := MutateJSON(t, []byte(nodeAt(tree, p).(string)))
				if b, err := json.Marshal(editPath(tree, p, string(mutated), false, "")); err == nil {
					return Bytes(b)
				}
			}
		}
		cls = 0
	}
	switch cls {
	case 0, 1, 2: // structural: replace / delete / rename one node
		var tree any
		if err := json.Unmarshal(valid, &tree); err != nil {
			return MutateBytes(t, valid)
		}
		var paths [][]any
		collectPaths(tree, nil, &paths)
		if len(paths) == 0 {
			return MutateBytes(t, valid)
		}
		p := paths[rapid.IntRange(0, len(paths)-1).Draw(t, "node")]
		var out any
		switch rapid.IntRange(0, 5).Draw(t, "op") {
		case 0: // delete the node (or null it at top level)
			out = editPath(tree, p, nil, true, "")
		case 1: // duplicate key with different case / rename key
			out = editPath(tree, p, nil, false, rapid.SampledFrom([]string{"up", " ", "X", "\u0000"}).Draw(t, "rename"))
		default:
			rep := json.RawMessage(rapid.SampledFrom(jsonSwaps).Draw(t, "swap"))
			out = editPath(tree, p, rep, false, "")
		}
		b, err := json.Marshal(out)
		if err != nil {
			return MutateBytes(t, valid)
		}
		return Bytes(b)
	default:
		return MutateBytes(t, valid)
	}
}

func collectPaths(n any, cur []any, out *[][]any) {
	cp := append([]any(nil), cur...)
	*out = append(*out, cp)
	switch v := n.(type) {
	case map[string]any:
		keys := make([]string, 0, len(v))
		for k := range v {
			keys = append(keys, k)
		}
		sortStrings(keys)
		for _, k := range keys {
			collectPaths(v[k], append(cp, k), out)
		}
	case []any:
		for i := range v {
			collectPaths(v[i], append(cp, i), out)
		}
	}
}

func nodeAt(n any, path []any) any {
	for _, p := range path {
		switch v := n.(type) {
		case map[string]any:
			n = v[p.(string)]
		case []any:
			n = v[p.(int)]
		default:
			return nil
		}
	}
	return n
}

func sortStrings(a []string) {
	for i := 1; i < len(a); i++ {
		for j := i; j > 0 && a[j] < a[j-1]; j-- {
			a[j], a[j-1] = a[j-1], a[j]
		}
	}
}

// editPath returns a copy of n with the node at path replaced by rep, deleted, or (when
// rename != "") its key renamed: upper-cased for "up", else with rename appended; an
// array element is duplicated instead.
func editPath(n any, path []any, rep any, del bool, rename string) any {
	if len(path) == 0 {
		if del {
			return nil
		}
		if rename != "" {
			return n
		}
		return rep
	}
	switch v := n.(type) {
	case map[string]any:
		k := path[0].(string)
		out := make(map[string]any, len(v))
		for kk, vv := range v {
			out[kk] = vv
		}
		if len(path) == 1 {
			switch {
			case del:
				delete(out, k)
			case rename != "":
				nk := k + rename
				if rename == "up" {
					nk = strings.ToUpper(k)
				}
				if nk != k {
					out[nk] = out[k]
					delete(out, k)
				}
			default:
				out[k] = rep
			}
			return out
		}
		out[k] = editPath(v[k], path[1:], rep, del, rename)
		return out
	case []any:
		i := path[0].(int)
		out := append([]any(nil), v...)
		if len(path) == 1 {
			switch {
			case del:
				return append(out[:i], out[i+1:]...)
			case rename != "":
				return append(out, out[i]) // duplicate the element
			default:
				out[i] = rep
			}
			return out
		}
		out[i] = editPath(v[i], path[1:], rep, del, rename)
		return out
	}
	return n
}

var textInserts = []string{
	"", " ", "\t", "\n", "-", "+", ".", ",", "e", "E", "e400", "0", "9", "٣", "١", "K", "k", "M", "İ", "ı", "ſ", "K",
	"\x00", "\xff", "‮", "/", ":", "%", "null", "0x", "_", "'", "\"", "\\", "😀", strings.Repeat("9", 330),
	strings.Repeat("0", 400), strings.Repeat("A", 200),
}

// MutateBytes applies one byte-level mutation: truncation, deletion, byte flip,
// insertion of a hostile token, duplication of a slice, emptying.
func MutateBytes(t *rapid.T, valid []byte) Bytes {
	b := append([]byte(nil), valid...)
	n := len(b)
	pos := 0
	if n > 0 {
		pos = rapid.IntRange(0, n).Draw(t, "pos")
	}
	switch rapid.IntRange(0, 6).Draw(t, "bytemut") {
	case 0: // truncate
		return Bytes(b[:pos])
	case 1: // drop prefix
		return Bytes(b[pos:])
	case 2: // delete one byte
		if pos < n {
			return Bytes(append(b[:pos], b[pos+1:]...))
		}
		return Bytes(b[:0])
	case 3: // set one byte
		if pos < n {
			b[pos] = rapid.Byte().Draw(t, "byte")
			return Bytes(b)
		}
		return Bytes(append(b, rapid.Byte().Draw(t, "byte")))
	case 4: // duplicate a slice
		end := pos
		if pos < n {
			end = rapid.IntRange(pos, n).Draw(t, "end")
		}
		out := append([]byte(nil), b[:end]...)
		out = append(out, b[pos:end]...)
		out = append(out, b[end:]...)
		return Bytes(out)
	case 5: // empty
		return Bytes(nil)
	default: // insert a hostile token
		ins := rapid.SampledFrom(textInserts).Draw(t, "ins")
		out := append([]byte(nil), b[:pos]...)
		out = append(out, ins...)
		out = append(out, b[pos:]...)
		return Bytes(out)
	}
}

// MutateText is MutateBytes for non-JSON textual fields.
func MutateText(t *rapid.T, valid string) Bytes { return MutateBytes(t, []byte(valid)) }

// JSONField draws a value for a JSON-carrying field according to kind; valid builds a
// well-formed document.
func JSONField(t *rapid.T, kind string, valid func(*rapid.T) []byte, extraHostile []string) Bytes {
	switch kind {
	case KindValid:
		return Bytes(valid(t))
	case KindMutated:
		return MutateJSON(t, valid(t))
	default:
		return Raw(t, JSONAlphabet, extraHostile)
	}
}

// TextField draws a value for a plain textual field according to kind.
func TextField(t *rapid.T, kind string, valid func(*rapid.T) string, alphabet string, extraHostile []string) Bytes {
	switch kind {
	case KindValid:
		return Bytes(valid(t))
	case KindMutated:
		return MutateText(t, valid(t))
	default:
		return Raw(t, alphabet, extraHostile)
	}
}

// IsJSON reports whether b decodes as JSON at all (depth label helper).
func IsJSON(b []byte) bool { return json.Valid(b) }

// MustJSON marshals v or panics (generator bug).
func MustJSON(v any) []byte {
	b, err := json.Marshal(v)
	if err != nil {
		panic(fmt.Sprintf("c15gen: %v", err))
	}
	return b
}

// IPv4 / IPv6 / CIDR text generators (valid by construction).
func IPv4(t *rapid.T) string {
	return fmt.Sprintf("%d.%d.%d.%d", rapid.IntRange(0, 255).Draw(t, "a"), rapid.IntRange(0, 255).Draw(t, "b"),
		rapid.IntRange(0, 255).Draw(t, "c"), rapid.IntRange(0, 255).Draw(t, "d"))
}

func IPv6(t *rapid.T) string {
	switch rapid.IntRange(0, 3).Draw(t, "v6form") {
	case 0:
		return fmt.Sprintf("fd00:%x::%x", rapid.IntRange(0, 0xffff).Draw(t, "a"), rapid.IntRange(0, 0xffff).Draw(t, "b"))
	case 1:
		return "::ffff:" + IPv4(t)
	case 2:
		return rapid.SampledFrom([]string{"::", "::1", "fe80::1", "ff02::1"}).Draw(t, "wk")
	default:
		parts := make([]string, 8)
		for i := range parts {
			parts[i] = fmt.Sprintf("%x", rapid.IntRange(0, 0xffff).Draw(t, "h"))
		}
		return strings.Join(parts, ":")
	}
}

func CIDRv4(t *rapid.T) string {
	return fmt.Sprintf("%s/%d", IPv4(t), rapid.IntRange(0, 32).Draw(t, "len"))
}

func CIDRv6(t *rapid.T) string {
	return fmt.Sprintf("%s/%d", IPv6(t), rapid.IntRange(0, 128).Draw(t, "len"))
}

// IPAlphabet is the alphabet for raw strings aimed at IP / CIDR parsers.
const IPAlphabet = "0123456789abcdefABCDEF.:/% -"

// Name draws a short identifier.
func Name(t *rapid.T) string {
	return rapid.StringMatching(`[a-z][a-z0-9-]{0,12}`).Draw(t, "name")
}
