// Package cloudctl is a stateful simulator of the cloud as seen by the terway control
// plane: it implements pkg/controller.Interface (aliyunClient.VPC + ECS + ENI + EFLO) on
// one model of the region and keeps its own ground truth.
//
// State: interfaces {id, mac, type, traffic mode, status, instance, trunk, tags, creation
// time, primary address, v4/v6 sets, vSwitch, security groups}, vSwitches {zone, CIDRs,
// free count}, instances {zone, interface limit, per-interface address limits}.
// Addresses are issued from a monotone counter inside the vSwitch CIDR, so an address
// value is never reused after it was unassigned.
//
// Every call is appended to a call log (logical sequence number, arguments, what was
// answered), passes the call-arrival Hook (under the simulator lock, before any effect:
// call-time monitors), an optional Gate (without the lock: the harness may park the call)
// and the After hook (effect applied, answer known), and consults the fault plan: armed
// faults are consumed by the next call of their kind, mode before (error, no effect),
// after (full effect, error answered: "timeout after effect") or partial (K of the
// requested addresses assigned, error answered). Error values are real SDK server errors
// wrapped exactly as the real client wraps them, so apiErr.ErrorCodeIs works.
//
// Contract mirrored from pkg/aliyun/client (read there): the ECS assign calls answer
// (nil, err) on any error; the EFLO assign call may answer ([{IPName}], err) when the
// address was created but did not become available; Detach of a missing interface and
// UnAssign of missing addresses succeed; DescribeNetworkInterfaces ANDs its filters unless
// LenientDescribeByID is set; Delete of a missing interface fails with
// InvalidEniId.NotFound on ECS and succeeds on EFLO; the ECS create answer carries no
// traffic mode; WaitForNetworkInterface polls Describe at most backoff.Steps times.
// The backend (ECS or EFLO) is chosen per call from the context exactly as the real
// client does (aliyunClient.GetBackendAPI).
//
// The simulator never sleeps; asynchronous transitions (Attaching -> InUse,
// Detaching -> Available, Executing -> InUse) advance by one step per Describe/Wait poll
// that observes the interface (AttachPolls / DetachPolls).
package cloudctl

import (
	"context"
	"errors"
	"fmt"
	"net/netip"
	"sort"
	"strings"
	"sync"

	sdkErr "github.com/aliyun/alibaba-cloud-sdk-go/sdk/errors"
	"github.com/aliyun/alibaba-cloud-sdk-go/services/ecs"
	"github.com/aliyun/alibaba-cloud-sdk-go/services/eflo"
	"github.com/aliyun/alibaba-cloud-sdk-go/services/vpc"
	"k8s.io/apimachinery/pkg/util/wait"

	aliyunClient "github.com/AliyunContainerService/terway/pkg/aliyun/client"
	apiErr "github.com/AliyunContainerService/terway/pkg/aliyun/client/errors"
)

// Call kinds.
const (
	KCreate    = "create"
	KAttach    = "attach"
	KDetach    = "detach"
	KDelete    = "delete"
	KDescribe  = "describe"
	KWait      = "wait"
	KAssign4   = "assign4"
	KAssign6   = "assign6"
	KUnAssign4 = "unassign4"
	KUnAssign6 = "unassign6"
	KVSwitch   = "vswitch"
	KOther     = "other"
)

// Fault modes.
const (
	FBefore  = "before"  // error, no effect
	FAfter   = "after"   // full effect, error answered
	FPartial = "partial" // K of the requested addresses assigned, error answered
)

// EFLO status of an address / interface that is not ready yet.
const StatusExecuting = aliyunClient.LENIStatusExecuting

// Fault is one entry of the fault plan; it is consumed by the next call of Kind.
type Fault struct {
	Kind string `json:"kind"`
	Mode string `json:"mode"`
	Code string `json:"code,omitempty"` // SDK error code; "" = InternalError; on EFLO the numeric codes 1013/1011 are accepted
	K    int    `json:"k,omitempty"`
}

// IP is one address of an interface.
type IP struct {
	Addr    string
	Name    string // EFLO only
	Status  string // EFLO only: "Available" | "Executing"
	Primary bool
	// transient (EFLO): the status is observed busy more times, then becomes Available
	busy      int
	transient bool
}

// ENI is one network interface of the simulated region.
type ENI struct {
	ID           string
	MAC          string
	Type         string // Primary | Secondary | Trunk | Member
	TrafficMode  string // Standard | HighPerformance
	Status       string // Available | Attaching | InUse | Detaching | Deleting | Executing
	InstanceID   string
	TrunkID      string
	VSwitchID    string
	ZoneID       string
	SGs          []string
	RG           string
	Tags         map[string]string
	CreationTime string
	Primary      string
	V4           []IP // primary first
	V6           []IP
	EFLO         bool
	ByCall       bool // created through a Create call (not pre-existing / drift)
	CreatedSeq   int
	pending      int    // polls left before the status becomes next
	next         string // status after the pending polls
}

func (e *ENI) clone() *ENI {
	c := *e
	c.SGs = append([]string(nil), e.SGs...)
	c.V4 = append([]IP(nil), e.V4...)
	c.V6 = append([]IP(nil), e.V6...)
	c.Tags = map[string]string{}
	for k, v := range e.Tags {
		c.Tags[k] = v
	}
	return &c
}

// V4Addrs / V6Addrs list the address values (primary first).
func (e *ENI) V4Addrs() []string { return addrs(e.V4) }
func (e *ENI) V6Addrs() []string { return addrs(e.V6) }

func addrs(in []IP) []string {
	out := make([]string, 0, len(in))
	for _, i := range in {
		out = append(out, i.Addr)
	}
	return out
}

// VSwitch is one vSwitch.
type VSwitch struct {
	ID    string
	Zone  string
	CIDR4 string
	CIDR6 string
	Free  int64 // free IPv4 addresses
	base4 [4]byte
	next4 uint32
	base6 [16]byte
	next6 uint64
}

// Instance holds the limits the cloud itself enforces for one ECS instance / EFLO node.
type Instance struct {
	ID       string
	Zone     string
	MaxENI   int // interfaces that may be attached besides the primary one
	V4PerENI int
	V6PerENI int
}

// Call is one logged call.
type Call struct {
	Seq      int
	Kind     string
	EFLO     bool
	ENI      string
	Instance string
	Trunk    string
	VSwitch  string
	Type     string // create: Secondary | Trunk
	ERDMA    bool
	N4, N6   int      // requested counts (create: total v4 incl. primary)
	IPs      []string // unassign: requested; assign: what the cloud assigned
	IDs      []string // describe: id filter
	Status   string   // describe / wait: status filter
	Tags     map[string]string
	Fault    *Fault
	Err      string // "" = success, else error text
	ErrCode  string
	Told     []*ENI // interfaces contained in the answer (describe, wait, create)
	ToldIPs  []IP   // addresses contained in the answer (assign)
	Polls    int    // wait: polls used
	Effect   bool   // the call changed the cloud
}

// Mutating reports whether the call kind changes cloud state.
func (c *Call) Mutating() bool {
	switch c.Kind {
	case KCreate, KAttach, KDetach, KDelete, KAssign4, KAssign6, KUnAssign4, KUnAssign6:
		return true
	}
	return false
}

func (c *Call) String() string {
	f := ""
	if c.Fault != nil {
		f = fmt.Sprintf(" fault=%s/%s/%d", c.Fault.Mode, c.Fault.Code, c.Fault.K)
	}
	e := ""
	if c.Err != "" {
		e = " err=" + c.ErrCode
		if c.ErrCode == "" {
			e = " err=" + c.Err
		}
	}
	told := ""
	for _, t := range c.Told {
		told += fmt.Sprintf(" %s[%s %d/%d]", t.ID, t.Status, len(t.V4), len(t.V6))
	}
	if told != "" {
		told = " told:" + told
	}
	return fmt.Sprintf("#%d %s eni=%s n4=%d n6=%d type=%s erdma=%v ips=%v ids=%v%s%s%s", c.Seq, c.Kind, c.ENI, c.N4, c.N6, c.Type, c.ERDMA, c.IPs, c.IDs, f, e, told)
}

// Cloud is the simulated region.
type Cloud struct {
	mu        sync.Mutex
	ENIs      map[string]*ENI
	Deleted   map[string]bool
	VSwitches map[string]*VSwitch
	Instances map[string]*Instance
	Log       []Call
	faults    []Fault
	nextENI   int
	nextName  int

	// AttachPolls / DetachPolls: number of polls an interface is observed in the middle
	// status (Attaching / Detaching / Executing) before it settles. 0 = immediately.
	AttachPolls int
	DetachPolls int

	// LenientDescribeByID: a Describe that names interface ids AND an instance id also
	// answers interfaces that are attached to no instance at all (the instance filter only
	// excludes interfaces of other instances). false = strict AND of all filters. Which of
	// the two the real API does cannot be decided offline; harnesses quantify over both.
	LenientDescribeByID bool

	// InstanceTypes answers DescribeInstanceTypes; NodeInfo answers GetNodeInfoForPod.
	InstanceTypes map[string]ecs.InstanceType
	NodeInfo      map[string]*eflo.Content

	// Hook is called under the lock when a call arrives, before any effect.
	Hook func(cl *Cloud, c *Call)
	// After is called under the lock when the call has finished (effect applied,
	// answer and error recorded in c).
	After func(cl *Cloud, c *Call)
	// Gate, if set, is called WITHOUT the lock after Hook and before the effect; the
	// harness may block in it to hold the call.
	Gate func(c *Call)
}

// New returns an empty region.
func New() *Cloud {
	return &Cloud{
		ENIs: map[string]*ENI{}, Deleted: map[string]bool{}, VSwitches: map[string]*VSwitch{},
		Instances: map[string]*Instance{}, InstanceTypes: map[string]ecs.InstanceType{}, NodeInfo: map[string]*eflo.Content{},
	}
}

func (cl *Cloud) Lock()   { cl.mu.Lock() }
func (cl *Cloud) Unlock() { cl.mu.Unlock() }

// AddVSwitch registers vSwitch number idx (CIDRs are derived from idx: 10.<idx+1>.0.0/16,
// fd00:0:0:<idx+1>::/64).
func (cl *Cloud) AddVSwitch(id, zone string, idx int, free int64) *VSwitch {
	cl.mu.Lock()
	defer cl.mu.Unlock()
	v := &VSwitch{ID: id, Zone: zone, Free: free, next4: 9}
	v.base4 = [4]byte{10, byte(idx + 1), 0, 0}
	v.CIDR4 = fmt.Sprintf("10.%d.0.0/16", idx+1)
	v.base6[0], v.base6[1] = 0xfd, 0x00
	v.base6[6], v.base6[7] = byte((idx+1)>>8), byte(idx+1)
	v.CIDR6 = netip.PrefixFrom(netip.AddrFrom16(v.base6), 64).String()
	cl.VSwitches[id] = v
	return v
}

// AddInstance registers an instance and the limits the cloud enforces for it.
func (cl *Cloud) AddInstance(id, zone string, maxENI, v4PerENI, v6PerENI int) *Instance {
	cl.mu.Lock()
	defer cl.mu.Unlock()
	in := &Instance{ID: id, Zone: zone, MaxENI: maxENI, V4PerENI: v4PerENI, V6PerENI: v6PerENI}
	cl.Instances[id] = in
	return in
}

func (v *VSwitch) issue4() string {
	v.next4++
	n := v.next4
	b := v.base4
	b[2], b[3] = byte(n>>8), byte(n)
	return netip.AddrFrom4(b).String()
}

func (v *VSwitch) issue6() string {
	v.next6++
	n := v.next6 + 0x10
	b := v.base6
	for i := 0; i < 8; i++ {
		b[15-i] = byte(n >> (8 * i))
	}
	return netip.AddrFrom16(b).String()
}

// NewENIOpts describes an interface put into the region by the harness (pre-existing
// state or out-of-band drift), not through a logged call.
type NewENIOpts struct {
	Type        string // default Secondary
	TrafficMode string // default Standard
	Status      string // default InUse when InstanceID != "", else Available
	InstanceID  string
	VSwitchID   string
	N4, N6      int // N4 counts the primary address
	Tags        map[string]string
	EFLO        bool
	ByCall      bool
}

// AddENI creates an interface directly (no call is logged).
func (cl *Cloud) AddENI(o NewENIOpts) *ENI {
	cl.mu.Lock()
	defer cl.mu.Unlock()
	e := cl.mkENI(o.VSwitchID, o.Type, o.TrafficMode, max(o.N4, 1), o.N6, o.Tags, o.EFLO)
	e.InstanceID = o.InstanceID
	e.ByCall = o.ByCall
	e.Status = o.Status
	if e.Status == "" {
		e.Status = aliyunClient.ENIStatusAvailable
		if o.InstanceID != "" {
			e.Status = aliyunClient.ENIStatusInUse
		}
	}
	return e.clone()
}

func (cl *Cloud) mkENI(vsw, typ, mode string, n4, n6 int, tags map[string]string, isEFLO bool) *ENI {
	cl.nextENI++
	v := cl.VSwitches[vsw]
	e := &ENI{
		ID:           fmt.Sprintf("eni-%03d", cl.nextENI),
		MAC:          fmt.Sprintf("00:16:3e:00:%02x:%02x", cl.nextENI>>8, cl.nextENI&0xff),
		Type:         typ,
		TrafficMode:  mode,
		Status:       aliyunClient.ENIStatusAvailable,
		VSwitchID:    vsw,
		SGs:          []string{"sg-1"},
		Tags:         map[string]string{},
		CreationTime: fmt.Sprintf("2024-01-01T00:%02d:%02dZ", (cl.nextENI/60)%60, cl.nextENI%60),
		EFLO:         isEFLO,
		CreatedSeq:   len(cl.Log) + 1,
	}
	if e.Type == "" {
		e.Type = aliyunClient.ENITypeSecondary
	}
	if e.TrafficMode == "" {
		e.TrafficMode = aliyunClient.ENITrafficModeStandard
	}
	for k, val := range tags {
		e.Tags[k] = val
	}
	if v != nil {
		e.ZoneID = v.Zone
		for i := 0; i < n4; i++ {
			ip := IP{Addr: v.issue4(), Primary: i == 0}
			if isEFLO && i > 0 {
				ip.Name, ip.Status = cl.ipName(), aliyunClient.LENIIPStatusAvailable
			}
			e.V4 = append(e.V4, ip)
			v.Free--
		}
		for i := 0; i < n6; i++ {
			e.V6 = append(e.V6, IP{Addr: v.issue6()})
		}
		if len(e.V4) > 0 {
			e.Primary = e.V4[0].Addr
		}
	}
	cl.ENIs[e.ID] = e
	return e
}

func (cl *Cloud) ipName() string {
	cl.nextName++
	return fmt.Sprintf("ipname-%04d", cl.nextName)
}

// ---------------------------------------------------------------- faults

// Arm appends faults to the plan.
func (cl *Cloud) Arm(f ...Fault) {
	cl.mu.Lock()
	cl.faults = append(cl.faults, f...)
	cl.mu.Unlock()
}

// ClearFaults drops every armed fault and returns how many were pending.
func (cl *Cloud) ClearFaults() int {
	cl.mu.Lock()
	defer cl.mu.Unlock()
	n := len(cl.faults)
	cl.faults = nil
	return n
}

func (cl *Cloud) takeFault(kind string) *Fault {
	for i, f := range cl.faults {
		if f.Kind == kind {
			cl.faults = append(cl.faults[:i], cl.faults[i+1:]...)
			ff := f
			return &ff
		}
	}
	return nil
}

// MkErr builds the error value the real client would return for an SDK error code.
func MkErr(code string) error {
	if code == "" {
		code = apiErr.ErrInternalError
	}
	return apiErr.WarpError(sdkErr.NewServerError(400, fmt.Sprintf(`{"Code":%q,"Message":"simulated","RequestId":"sim"}`, code), ""))
}

func mkErrFor(c *Call, code string) error {
	if c.EFLO {
		switch code {
		case "1013", apiErr.ErrIPv4CountExceeded, apiErr.ErrEniPerInstanceLimitExceeded:
			return &apiErr.EFLOCode{Code: apiErr.ErrEfloPrivateIPQuotaExecuted, Message: "simulated quota", RequestID: "sim"}
		case "1011":
			return &apiErr.EFLOCode{Code: apiErr.ErrEfloResourceNotFound, Message: "simulated not found", RequestID: "sim"}
		}
	}
	return MkErr(code)
}

func errCode(err error) string {
	if err == nil {
		return ""
	}
	var se sdkErr.Error
	if errors.As(err, &se) {
		return se.ErrorCode()
	}
	var ec *apiErr.EFLOCode
	if errors.As(err, &ec) {
		return fmt.Sprintf("%d", ec.Code)
	}
	return ""
}

// ---------------------------------------------------------------- call frame

func (cl *Cloud) begin(ctx context.Context, c *Call) *Fault {
	cl.mu.Lock()
	c.Seq = len(cl.Log) + 1
	c.EFLO = aliyunClient.GetBackendAPI(ctx) == aliyunClient.BackendAPIEFLO
	c.Fault = cl.takeFault(c.Kind)
	if cl.Hook != nil {
		cl.Hook(cl, c)
	}
	g := cl.Gate
	cl.mu.Unlock()
	if g != nil {
		g(c)
	}
	cl.mu.Lock()
	return c.Fault
}

func (cl *Cloud) end(c *Call, err error) error {
	if err != nil {
		c.Err = err.Error()
		c.ErrCode = errCode(err)
	}
	cl.Log = append(cl.Log, *c)
	if cl.After != nil {
		cl.After(cl, c)
	}
	cl.mu.Unlock()
	return err
}

// tick advances an interface in a middle status by one observation.
func (e *ENI) tick() {
	for i := range e.V4 {
		ip := &e.V4[i]
		if !ip.transient {
			continue
		}
		if ip.busy > 0 {
			ip.busy--
			continue
		}
		ip.Status, ip.transient = aliyunClient.LENIIPStatusAvailable, false
	}
	if e.next == "" {
		return
	}
	if e.pending > 0 {
		e.pending--
		return
	}
	e.Status = e.next
	e.next = ""
	if e.Status == aliyunClient.ENIStatusAvailable {
		e.InstanceID = ""
		e.TrunkID = ""
	}
}

func (cl *Cloud) attachedCount(instance string) int {
	n := 0
	for _, e := range cl.ENIs {
		if e.InstanceID == instance && e.Type != aliyunClient.ENITypePrimary && e.Type != aliyunClient.ENITypeMember {
			n++
		}
	}
	return n
}

// ---------------------------------------------------------------- views

func (cl *Cloud) view(e *ENI, efloView bool) *aliyunClient.NetworkInterface {
	r := &aliyunClient.NetworkInterface{
		Status:                      e.Status,
		MacAddress:                  e.MAC,
		NetworkInterfaceID:          e.ID,
		VSwitchID:                   e.VSwitchID,
		PrivateIPAddress:            e.Primary,
		ZoneID:                      e.ZoneID,
		SecurityGroupIDs:            append([]string(nil), e.SGs...),
		ResourceGroupID:             e.RG,
		Type:                        e.Type,
		InstanceID:                  e.InstanceID,
		TrunkNetworkInterfaceID:     e.TrunkID,
		NetworkInterfaceTrafficMode: e.TrafficMode,
		CreationTime:                e.CreationTime,
	}
	for _, ip := range e.V4 {
		s := aliyunClient.IPSet{IPAddress: ip.Addr, Primary: ip.Primary}
		if efloView && !ip.Primary {
			s.IPName, s.IPStatus = ip.Name, ip.Status
		}
		r.PrivateIPSets = append(r.PrivateIPSets, s)
	}
	if !efloView {
		for _, ip := range e.V6 {
			r.IPv6Set = append(r.IPv6Set, aliyunClient.IPSet{IPAddress: ip.Addr})
		}
		keys := make([]string, 0, len(e.Tags))
		for k := range e.Tags {
			keys = append(keys, k)
		}
		sort.Strings(keys)
		for _, k := range keys {
			r.Tags = append(r.Tags, ecs.Tag{Key: k, Value: e.Tags[k], TagKey: k, TagValue: e.Tags[k]})
		}
	} else {
		r.Type = aliyunClient.ENITypeSecondary
		r.NetworkInterfaceTrafficMode = aliyunClient.ENITrafficModeStandard
	}
	return r
}

func (cl *Cloud) sortedIDs() []string {
	ids := make([]string, 0, len(cl.ENIs))
	for id := range cl.ENIs {
		ids = append(ids, id)
	}
	sort.Strings(ids)
	return ids
}

// Snapshot returns deep copies of all interfaces, sorted by id.
func (cl *Cloud) Snapshot() []*ENI {
	cl.mu.Lock()
	defer cl.mu.Unlock()
	return cl.SnapshotLocked()
}

// SnapshotLocked is Snapshot for use inside hooks.
func (cl *Cloud) SnapshotLocked() []*ENI {
	var out []*ENI
	for _, id := range cl.sortedIDs() {
		out = append(out, cl.ENIs[id].clone())
	}
	return out
}

// Get returns a copy of one interface (nil if it does not exist).
func (cl *Cloud) Get(id string) *ENI {
	cl.mu.Lock()
	defer cl.mu.Unlock()
	if e, ok := cl.ENIs[id]; ok {
		return e.clone()
	}
	return nil
}

// Calls returns a copy of the call log from index from on.
func (cl *Cloud) Calls(from int) []Call {
	cl.mu.Lock()
	defer cl.mu.Unlock()
	if from > len(cl.Log) {
		from = len(cl.Log)
	}
	return append([]Call(nil), cl.Log[from:]...)
}

// NCalls returns the length of the call log.
func (cl *Cloud) NCalls() int {
	cl.mu.Lock()
	defer cl.mu.Unlock()
	return len(cl.Log)
}

// ---------------------------------------------------------------- drift (out of band)

// DriftRemoveIP removes a non-primary address behind the controller's back. Returns
// false if the interface or the address does not exist or the address is primary.
func (cl *Cloud) DriftRemoveIP(eniID, addr string) bool {
	cl.mu.Lock()
	defer cl.mu.Unlock()
	e, ok := cl.ENIs[eniID]
	if !ok {
		return false
	}
	return cl.removeIP(e, addr, "") > 0
}

// DriftAddIP assigns n more addresses of a family behind the controller's back
// (limits and vSwitch capacity are not checked; free count is decremented).
func (cl *Cloud) DriftAddIP(eniID string, n int, v6 bool) []string {
	cl.mu.Lock()
	defer cl.mu.Unlock()
	e, ok := cl.ENIs[eniID]
	if !ok {
		return nil
	}
	var out []string
	for _, ip := range cl.issue(e, n, v6, aliyunClient.LENIIPStatusAvailable) {
		out = append(out, ip.Addr)
	}
	return out
}

// DriftIPStatus (EFLO) puts a non-primary address into a transient, non-Available status
// (as the real API reports while an address is being created or removed): the next polls
// observations of the interface see status, later ones see Available again. Returns false
// if the interface is not an EFLO one or the address is missing or primary.
func (cl *Cloud) DriftIPStatus(eniID, addr, status string, polls int) bool {
	cl.mu.Lock()
	defer cl.mu.Unlock()
	e, ok := cl.ENIs[eniID]
	if !ok || !e.EFLO {
		return false
	}
	for i := range e.V4 {
		if e.V4[i].Addr == addr && !e.V4[i].Primary {
			e.V4[i].Status, e.V4[i].busy, e.V4[i].transient = status, polls, true
			return true
		}
	}
	return false
}

// DriftDeleteENI removes an interface behind the controller's back (whatever its state).
func (cl *Cloud) DriftDeleteENI(id string) bool {
	cl.mu.Lock()
	defer cl.mu.Unlock()
	e, ok := cl.ENIs[id]
	if !ok {
		return false
	}
	cl.drop(e)
	return true
}

// DriftDetachENI detaches an interface behind the controller's back.
func (cl *Cloud) DriftDetachENI(id string) bool {
	cl.mu.Lock()
	defer cl.mu.Unlock()
	e, ok := cl.ENIs[id]
	if !ok || e.InstanceID == "" {
		return false
	}
	e.InstanceID, e.TrunkID, e.Status, e.next = "", "", aliyunClient.ENIStatusAvailable, ""
	return true
}

func (cl *Cloud) drop(e *ENI) {
	if v := cl.VSwitches[e.VSwitchID]; v != nil {
		v.Free += int64(len(e.V4))
	}
	delete(cl.ENIs, e.ID)
	cl.Deleted[e.ID] = true
}

func (cl *Cloud) removeIP(e *ENI, addr, name string) int {
	n := 0
	keep := e.V4[:0:0]
	for _, ip := range e.V4 {
		if !ip.Primary && ((addr != "" && ip.Addr == addr) || (name != "" && ip.Name == name)) {
			n++
			if v := cl.VSwitches[e.VSwitchID]; v != nil {
				v.Free++
			}
			continue
		}
		keep = append(keep, ip)
	}
	e.V4 = keep
	keep6 := e.V6[:0:0]
	for _, ip := range e.V6 {
		if addr != "" && ip.Addr == addr {
			n++
			continue
		}
		keep6 = append(keep6, ip)
	}
	e.V6 = keep6
	return n
}

func (cl *Cloud) issue(e *ENI, n int, v6 bool, status string) []IP {
	v := cl.VSwitches[e.VSwitchID]
	if v == nil {
		return nil
	}
	var out []IP
	for i := 0; i < n; i++ {
		if v6 {
			ip := IP{Addr: v.issue6()}
			e.V6 = append(e.V6, ip)
			out = append(out, ip)
			continue
		}
		ip := IP{Addr: v.issue4()}
		if e.EFLO {
			ip.Name, ip.Status = cl.ipName(), status
		}
		v.Free--
		e.V4 = append(e.V4, ip)
		out = append(out, ip)
	}
	return out
}

// ---------------------------------------------------------------- VPC / EFLO / misc

func (cl *Cloud) DescribeVSwitchByID(ctx context.Context, vSwitchID string) (*vpc.VSwitch, error) {
	c := &Call{Kind: KVSwitch, VSwitch: vSwitchID}
	f := cl.begin(ctx, c)
	if f != nil {
		return nil, cl.end(c, MkErr(f.Code))
	}
	v, ok := cl.VSwitches[vSwitchID]
	if !ok {
		return nil, cl.end(c, MkErr("InvalidVSwitchId.NotFound"))
	}
	r := &vpc.VSwitch{VSwitchId: v.ID, ZoneId: v.Zone, AvailableIpAddressCount: max(v.Free, 0), CidrBlock: v.CIDR4, Ipv6CidrBlock: v.CIDR6, Status: "Available"}
	return r, cl.end(c, nil)
}

func (cl *Cloud) GetNodeInfoForPod(ctx context.Context, nodeID string) (*eflo.Content, error) {
	c := &Call{Kind: KOther, Instance: nodeID}
	cl.begin(ctx, c)
	r, ok := cl.NodeInfo[nodeID]
	if !ok {
		return nil, cl.end(c, fmt.Errorf("node %s not found", nodeID))
	}
	return r, cl.end(c, nil)
}

func (cl *Cloud) DescribeInstanceTypes(ctx context.Context, types []string) ([]ecs.InstanceType, error) {
	c := &Call{Kind: KOther}
	cl.begin(ctx, c)
	var out []ecs.InstanceType
	keys := make([]string, 0, len(cl.InstanceTypes))
	for k := range cl.InstanceTypes {
		keys = append(keys, k)
	}
	sort.Strings(keys)
	for _, k := range keys {
		if len(types) == 0 || contains(types, k) {
			out = append(out, cl.InstanceTypes[k])
		}
	}
	return out, cl.end(c, nil)
}

func contains(l []string, s string) bool {
	for _, x := range l {
		if x == s {
			return true
		}
	}
	return false
}

// ---------------------------------------------------------------- create

func (cl *Cloud) CreateNetworkInterface(ctx context.Context, opts ...aliyunClient.CreateNetworkInterfaceOption) (*aliyunClient.NetworkInterface, error) {
	return cl.create(aliyunClient.SetBackendAPI(ctx, aliyunClient.BackendAPIECS), opts...)
}

func (cl *Cloud) CreateNetworkInterfaceV2(ctx context.Context, opts ...aliyunClient.CreateNetworkInterfaceOption) (*aliyunClient.NetworkInterface, error) {
	return cl.create(ctx, opts...)
}

func (cl *Cloud) create(ctx context.Context, opts ...aliyunClient.CreateNetworkInterfaceOption) (*aliyunClient.NetworkInterface, error) {
	option := &aliyunClient.CreateNetworkInterfaceOptions{}
	for _, o := range opts {
		o.ApplyCreateNetworkInterface(option)
	}
	isEFLO := aliyunClient.GetBackendAPI(ctx) == aliyunClient.BackendAPIEFLO
	o := option.NetworkInterfaceOptions
	// argument validation of the real client (options.go: Finish / EFLO)
	if o == nil || o.VSwitchID == "" || len(o.SecurityGroupIDs) == 0 || (isEFLO && o.IPCount > 1) {
		c := &Call{Kind: KCreate}
		if o != nil {
			c.N4, c.N6, c.VSwitch, c.Instance = o.IPCount, o.IPv6Count, o.VSwitchID, o.InstanceID
		}
		cl.begin(ctx, c)
		return nil, cl.end(c, aliyunClient.ErrInvalidArgs)
	}
	c := &Call{Kind: KCreate, VSwitch: o.VSwitchID, Instance: o.InstanceID, N4: max(o.IPCount, 1), N6: o.IPv6Count, Type: aliyunClient.ENITypeSecondary, ERDMA: o.ERDMA, Tags: o.Tags}
	if o.Trunk {
		c.Type = aliyunClient.ENITypeTrunk
	}
	if isEFLO {
		c.N6, c.Type, c.ERDMA = 0, aliyunClient.ENITypeSecondary, false
	}
	f := cl.begin(ctx, c)
	if f != nil && f.Mode == FBefore {
		return nil, cl.end(c, mkErrFor(c, f.Code))
	}
	v, ok := cl.VSwitches[o.VSwitchID]
	if !ok {
		return nil, cl.end(c, MkErr("InvalidVSwitchId.NotFound"))
	}
	if v.Free < int64(c.N4) {
		return nil, cl.end(c, MkErr(apiErr.InvalidVSwitchIDIPNotEnough))
	}
	if isEFLO {
		in := cl.Instances[o.InstanceID]
		if in != nil && cl.attachedCount(o.InstanceID) >= in.MaxENI {
			return nil, cl.end(c, mkErrFor(c, "1013"))
		}
	}
	mode := aliyunClient.ENITrafficModeStandard
	if c.ERDMA {
		mode = aliyunClient.ENITrafficModeRDMA
	}
	e := cl.mkENI(o.VSwitchID, c.Type, mode, c.N4, c.N6, o.Tags, isEFLO)
	e.ByCall = true
	e.SGs = append([]string(nil), o.SecurityGroupIDs...)
	e.RG = o.ResourceGroupID
	c.ENI = e.ID
	c.Effect = true
	if isEFLO {
		// an EFLO interface is bound to its node at creation and becomes usable later
		e.InstanceID = o.InstanceID
		e.Status, e.next, e.pending = StatusExecuting, aliyunClient.ENIStatusInUse, cl.AttachPolls
		if cl.AttachPolls == 0 {
			e.Status, e.next = aliyunClient.ENIStatusInUse, ""
		}
	}
	if f != nil { // after / partial: created, but the caller is told it failed
		return nil, cl.end(c, mkErrFor(c, f.Code))
	}
	c.Told = []*ENI{e.clone()}
	if isEFLO {
		return &aliyunClient.NetworkInterface{NetworkInterfaceID: e.ID, Type: aliyunClient.ENITypeSecondary, NetworkInterfaceTrafficMode: aliyunClient.ENITrafficModeStandard}, cl.end(c, nil)
	}
	r := cl.view(e, false)
	// FromCreateResp carries neither traffic mode, instance nor creation time
	r.NetworkInterfaceTrafficMode, r.InstanceID, r.CreationTime = "", "", ""
	return r, cl.end(c, nil)
}

// ---------------------------------------------------------------- describe / wait

func (cl *Cloud) DescribeNetworkInterface(ctx context.Context, vpcID string, eniID []string, instanceID string, instanceType string, status string, tags map[string]string) ([]*aliyunClient.NetworkInterface, error) {
	o := &aliyunClient.DescribeNetworkInterfaceOptions{}
	if len(eniID) > 0 {
		o.NetworkInterfaceIDs = &eniID
	}
	if instanceID != "" {
		o.InstanceID = &instanceID
	}
	if instanceType != "" {
		o.InstanceType = &instanceType
	}
	if status != "" {
		o.Status = &status
	}
	if len(tags) > 0 {
		o.Tags = &tags
	}
	return cl.DescribeNetworkInterfaceV2(aliyunClient.SetBackendAPI(ctx, aliyunClient.BackendAPIECS), o)
}

func (cl *Cloud) DescribeNetworkInterfaceV2(ctx context.Context, opts ...aliyunClient.DescribeNetworkInterfaceOption) ([]*aliyunClient.NetworkInterface, error) {
	o := &aliyunClient.DescribeNetworkInterfaceOptions{}
	for _, op := range opts {
		op.ApplyTo(o)
	}
	c := &Call{Kind: KDescribe}
	if o.InstanceID != nil {
		c.Instance = *o.InstanceID
	}
	if o.NetworkInterfaceIDs != nil {
		c.IDs = append([]string(nil), (*o.NetworkInterfaceIDs)...)
	}
	if o.Status != nil {
		c.Status = *o.Status
	}
	if o.InstanceType != nil {
		c.Type = *o.InstanceType
	}
	if o.Tags != nil {
		c.Tags = *o.Tags
	}
	f := cl.begin(ctx, c)
	if f != nil {
		return nil, cl.end(c, mkErrFor(c, f.Code))
	}
	out := cl.describe(c)
	return out, cl.end(c, nil)
}

func (cl *Cloud) describe(c *Call) []*aliyunClient.NetworkInterface {
	ids := c.IDs
	if c.EFLO && len(ids) > 1 {
		ids = ids[:1] // the EFLO list API takes a single id
	}
	out := []*aliyunClient.NetworkInterface{}
	for _, id := range cl.sortedIDs() {
		e := cl.ENIs[id]
		if len(ids) > 0 && !contains(ids, id) {
			continue
		}
		if c.EFLO != e.EFLO {
			continue
		}
		lenient := cl.LenientDescribeByID && len(ids) > 0 && e.InstanceID == ""
		if c.Instance == "" || e.InstanceID == c.Instance || lenient {
			e.tick() // observed: a middle status advances
		}
		if c.Instance != "" && e.InstanceID != c.Instance && !lenient {
			continue
		}
		if c.Instance != "" && e.Type == aliyunClient.ENITypeMember {
			continue
		}
		if c.Status != "" && e.Status != c.Status {
			continue
		}
		if c.Type != "" && !c.EFLO && e.Type != c.Type {
			continue
		}
		if !c.EFLO && len(c.Tags) > 0 {
			match := true
			for k, v := range c.Tags {
				if e.Tags[k] != v {
					match = false
				}
			}
			if !match {
				continue
			}
		}
		c.Told = append(c.Told, e.clone())
		out = append(out, cl.view(e, c.EFLO))
	}
	return out
}

func (cl *Cloud) WaitForNetworkInterface(ctx context.Context, eniID string, status string, backoff wait.Backoff, ignoreNotExist bool) (*aliyunClient.NetworkInterface, error) {
	return cl.WaitForNetworkInterfaceV2(aliyunClient.SetBackendAPI(ctx, aliyunClient.BackendAPIECS), eniID, status, backoff, ignoreNotExist)
}

func (cl *Cloud) WaitForNetworkInterfaceV2(ctx context.Context, eniID string, status string, backoff wait.Backoff, ignoreNotExist bool) (*aliyunClient.NetworkInterface, error) {
	if eniID == "" {
		return nil, fmt.Errorf("eniID not set")
	}
	c := &Call{Kind: KWait, ENI: eniID, Status: status}
	f := cl.begin(ctx, c)
	timeout := fmt.Errorf("error wait for eni %v to status %s, %w", eniID, status, wait.ErrWaitTimeout)
	if f != nil {
		// the polls never saw the wanted status (describe kept failing / status stuck)
		return nil, cl.end(c, timeout)
	}
	steps := backoff.Steps
	if steps < 1 {
		steps = 1
	}
	for i := 0; i < steps; i++ {
		c.Polls++
		e, ok := cl.ENIs[eniID]
		if !ok || (c.EFLO != e.EFLO) {
			if ignoreNotExist {
				return nil, cl.end(c, fmt.Errorf("error wait for eni %v to status %s, %w", eniID, status, apiErr.ErrNotFound))
			}
			continue
		}
		e.tick()
		if status != "" && e.Status != status {
			continue
		}
		c.Told = []*ENI{e.clone()}
		return cl.view(e, c.EFLO), cl.end(c, nil)
	}
	return nil, cl.end(c, timeout)
}

// ---------------------------------------------------------------- attach / detach / delete

func (cl *Cloud) AttachNetworkInterface(ctx context.Context, opts ...aliyunClient.AttachNetworkInterfaceOption) error {
	o := &aliyunClient.AttachNetworkInterfaceOptions{}
	for _, op := range opts {
		op.ApplyTo(o)
	}
	c := &Call{Kind: KAttach}
	if o.NetworkInterfaceID != nil {
		c.ENI = *o.NetworkInterfaceID
	}
	if o.InstanceID != nil {
		c.Instance = *o.InstanceID
	}
	if o.TrunkNetworkInstanceID != nil {
		c.Trunk = *o.TrunkNetworkInstanceID
	}
	f := cl.begin(ctx, c)
	if c.ENI == "" || c.Instance == "" {
		return cl.end(c, aliyunClient.ErrInvalidArgs)
	}
	if f != nil && f.Mode == FBefore {
		return cl.end(c, MkErr(f.Code))
	}
	e, ok := cl.ENIs[c.ENI]
	if !ok {
		return cl.end(c, MkErr(apiErr.ErrInvalidENINotFound))
	}
	if e.InstanceID != "" || e.Status != aliyunClient.ENIStatusAvailable {
		return cl.end(c, MkErr(apiErr.ErrInvalidENIState))
	}
	if c.Trunk == "" {
		if in := cl.Instances[c.Instance]; in != nil && cl.attachedCount(c.Instance) >= in.MaxENI {
			return cl.end(c, MkErr(apiErr.ErrEniPerInstanceLimitExceeded))
		}
	} else {
		t, ok := cl.ENIs[c.Trunk]
		if !ok || t.Type != aliyunClient.ENITypeTrunk || t.InstanceID != c.Instance {
			return cl.end(c, MkErr(apiErr.ErrInvalidENIState))
		}
		e.Type = aliyunClient.ENITypeMember
		e.TrunkID = c.Trunk
	}
	e.InstanceID = c.Instance
	e.Status, e.next, e.pending = aliyunClient.ENIStatusAttaching, aliyunClient.ENIStatusInUse, cl.AttachPolls
	if cl.AttachPolls == 0 {
		e.Status, e.next = aliyunClient.ENIStatusInUse, ""
	}
	c.Effect = true
	if f != nil {
		return cl.end(c, MkErr(f.Code))
	}
	return cl.end(c, nil)
}

func (cl *Cloud) DetachNetworkInterface(ctx context.Context, eniID, instanceID, trunkENIID string) error {
	c := &Call{Kind: KDetach, ENI: eniID, Instance: instanceID, Trunk: trunkENIID}
	f := cl.begin(ctx, c)
	if f != nil && f.Mode == FBefore {
		return cl.end(c, MkErr(f.Code))
	}
	e, ok := cl.ENIs[eniID]
	if ok && e.InstanceID != "" {
		if e.InstanceID != instanceID {
			return cl.end(c, MkErr(apiErr.ErrInvalidEcsIDNotFound+".Mismatch"))
		}
		if e.Type == aliyunClient.ENITypeMember {
			e.Type = aliyunClient.ENITypeSecondary
		}
		e.Status, e.next, e.pending = aliyunClient.ENIStatusDetaching, aliyunClient.ENIStatusAvailable, cl.DetachPolls
		if cl.DetachPolls == 0 {
			e.Status, e.next, e.InstanceID, e.TrunkID = aliyunClient.ENIStatusAvailable, "", "", ""
		}
		c.Effect = true
	}
	// a missing or already detached interface: the real client maps NotFound to success
	if f != nil {
		return cl.end(c, MkErr(f.Code))
	}
	return cl.end(c, nil)
}

func (cl *Cloud) DeleteNetworkInterface(ctx context.Context, eniID string) error {
	return cl.DeleteNetworkInterfaceV2(aliyunClient.SetBackendAPI(ctx, aliyunClient.BackendAPIECS), eniID)
}

func (cl *Cloud) DeleteNetworkInterfaceV2(ctx context.Context, eniID string) error {
	c := &Call{Kind: KDelete, ENI: eniID}
	f := cl.begin(ctx, c)
	if f != nil && f.Mode == FBefore {
		return cl.end(c, mkErrFor(c, f.Code))
	}
	e, ok := cl.ENIs[eniID]
	if !ok || e.EFLO != c.EFLO {
		if c.EFLO {
			return cl.end(c, nil) // code 1011 is mapped to success by the real client
		}
		return cl.end(c, MkErr(apiErr.ErrInvalidENINotFound))
	}
	if !c.EFLO && (e.InstanceID != "" || e.Status != aliyunClient.ENIStatusAvailable) {
		return cl.end(c, MkErr(apiErr.ErrInvalidENIState))
	}
	cl.drop(e)
	c.Effect = true
	if f != nil {
		return cl.end(c, mkErrFor(c, f.Code))
	}
	return cl.end(c, nil)
}

// ---------------------------------------------------------------- assign / unassign

func (cl *Cloud) AssignPrivateIPAddress(ctx context.Context, opts ...aliyunClient.AssignPrivateIPAddressOption) ([]netip.Addr, error) {
	r, err := cl.AssignPrivateIPAddressV2(aliyunClient.SetBackendAPI(ctx, aliyunClient.BackendAPIECS), opts...)
	return toAddrs(r), err
}

func (cl *Cloud) AssignIpv6Addresses(ctx context.Context, opts ...aliyunClient.AssignIPv6AddressesOption) ([]netip.Addr, error) {
	r, err := cl.AssignIpv6AddressesV2(aliyunClient.SetBackendAPI(ctx, aliyunClient.BackendAPIECS), opts...)
	return toAddrs(r), err
}

func toAddrs(in []aliyunClient.IPSet) []netip.Addr {
	var out []netip.Addr
	for _, i := range in {
		if a, err := netip.ParseAddr(i.IPAddress); err == nil {
			out = append(out, a)
		}
	}
	return out
}

func fromAddrs(in []netip.Addr) []aliyunClient.IPSet {
	var out []aliyunClient.IPSet
	for _, i := range in {
		out = append(out, aliyunClient.IPSet{IPAddress: i.String()})
	}
	return out
}

func (cl *Cloud) AssignPrivateIPAddressV2(ctx context.Context, opts ...aliyunClient.AssignPrivateIPAddressOption) ([]aliyunClient.IPSet, error) {
	option := &aliyunClient.AssignPrivateIPAddressOptions{}
	for _, o := range opts {
		o.ApplyAssignPrivateIPAddress(option)
	}
	return cl.assign(ctx, KAssign4, option.NetworkInterfaceOptions, false)
}

func (cl *Cloud) AssignIpv6AddressesV2(ctx context.Context, opts ...aliyunClient.AssignIPv6AddressesOption) ([]aliyunClient.IPSet, error) {
	option := &aliyunClient.AssignIPv6AddressesOptions{}
	for _, o := range opts {
		o.ApplyAssignIPv6Addresses(option)
	}
	return cl.assign(ctx, KAssign6, option.NetworkInterfaceOptions, true)
}

func (cl *Cloud) assign(ctx context.Context, kind string, o *aliyunClient.NetworkInterfaceOptions, v6 bool) ([]aliyunClient.IPSet, error) {
	c := &Call{Kind: kind}
	n := 0
	if o != nil {
		c.ENI = o.NetworkInterfaceID
		n = o.IPCount
		c.N4 = n
		if v6 {
			n = o.IPv6Count
			c.N4, c.N6 = 0, n
		}
	}
	f := cl.begin(ctx, c)
	if c.EFLO && v6 {
		return nil, cl.end(c, aliyunClient.ErrNotImplemented)
	}
	if o == nil || c.ENI == "" || n <= 0 || (c.EFLO && n != 1) {
		return nil, cl.end(c, aliyunClient.ErrInvalidArgs)
	}
	if f != nil && f.Mode == FBefore {
		return nil, cl.end(c, mkErrFor(c, f.Code))
	}
	e, ok := cl.ENIs[c.ENI]
	if !ok || e.EFLO != c.EFLO {
		return nil, cl.end(c, mkErrFor(c, apiErr.ErrInvalidENINotFound))
	}
	have := len(e.V4)
	if v6 {
		have = len(e.V6)
	}
	if in := cl.Instances[e.InstanceID]; in != nil {
		lim := in.V4PerENI
		code := apiErr.ErrIPv4CountExceeded
		if v6 {
			lim, code = in.V6PerENI, apiErr.ErrIPv6CountExceeded
		}
		if have+n > lim {
			return nil, cl.end(c, mkErrFor(c, code))
		}
	}
	v := cl.VSwitches[e.VSwitchID]
	k := n
	if f != nil && f.Mode == FPartial {
		k = min(max(f.K, 0), n)
		if c.EFLO {
			k = 1
		}
	}
	if !v6 && v != nil && v.Free < int64(k) {
		return nil, cl.end(c, MkErr(apiErr.InvalidVSwitchIDIPNotEnough))
	}
	if v6 && v != nil && v.Free <= 0 && k > 0 {
		// an exhausted vSwitch refuses IPv6 addresses as well (the controller handles this
		// code in its IPv6 branch)
		return nil, cl.end(c, MkErr(apiErr.InvalidVSwitchIDIPNotEnough))
	}
	status := aliyunClient.LENIIPStatusAvailable
	if f != nil && f.Mode == FPartial && c.EFLO {
		status = StatusExecuting
	}
	got := cl.issue(e, k, v6, status)
	c.Effect = len(got) > 0
	for _, ip := range got {
		c.IPs = append(c.IPs, ip.Addr)
	}
	if f != nil {
		err := mkErrFor(c, f.Code)
		if c.EFLO && f.Mode == FPartial {
			// created, but it never became available: the real client answers the name only
			out := []aliyunClient.IPSet{}
			for _, ip := range got {
				out = append(out, aliyunClient.IPSet{IPName: ip.Name})
				c.ToldIPs = append(c.ToldIPs, IP{Name: ip.Name})
			}
			return out, cl.end(c, fmt.Errorf("ip %s status %s", c.IPs, StatusExecuting))
		}
		return nil, cl.end(c, err)
	}
	out := []aliyunClient.IPSet{}
	for _, ip := range got {
		s := aliyunClient.IPSet{IPAddress: ip.Addr}
		if c.EFLO {
			s.IPName, s.IPStatus = ip.Name, ip.Status
		}
		out = append(out, s)
		c.ToldIPs = append(c.ToldIPs, ip)
	}
	return out, cl.end(c, nil)
}

func (cl *Cloud) UnAssignPrivateIPAddresses(ctx context.Context, eniID string, ips []netip.Addr) error {
	return cl.UnAssignPrivateIPAddressesV2(aliyunClient.SetBackendAPI(ctx, aliyunClient.BackendAPIECS), eniID, fromAddrs(ips))
}

func (cl *Cloud) UnAssignIpv6Addresses(ctx context.Context, eniID string, ips []netip.Addr) error {
	return cl.UnAssignIpv6AddressesV2(aliyunClient.SetBackendAPI(ctx, aliyunClient.BackendAPIECS), eniID, fromAddrs(ips))
}

func (cl *Cloud) UnAssignPrivateIPAddressesV2(ctx context.Context, eniID string, ips []aliyunClient.IPSet) error {
	return cl.unassign(ctx, KUnAssign4, eniID, ips)
}

func (cl *Cloud) UnAssignIpv6AddressesV2(ctx context.Context, eniID string, ips []aliyunClient.IPSet) error {
	return cl.unassign(ctx, KUnAssign6, eniID, ips)
}

func (cl *Cloud) unassign(ctx context.Context, kind, eniID string, ips []aliyunClient.IPSet) error {
	if len(ips) == 0 {
		return nil // the real client returns before any request
	}
	c := &Call{Kind: kind, ENI: eniID}
	for _, ip := range ips {
		if ip.IPAddress != "" {
			c.IPs = append(c.IPs, ip.IPAddress)
		} else {
			c.IPs = append(c.IPs, "name:"+ip.IPName)
		}
	}
	if kind == KUnAssign4 {
		c.N4 = len(ips)
	} else {
		c.N6 = len(ips)
	}
	f := cl.begin(ctx, c)
	if c.EFLO && kind == KUnAssign6 {
		return cl.end(c, aliyunClient.ErrNotImplemented)
	}
	if f != nil && f.Mode == FBefore {
		return cl.end(c, mkErrFor(c, f.Code))
	}
	e, ok := cl.ENIs[eniID]
	if ok && e.EFLO == c.EFLO {
		for _, ip := range ips {
			if c.EFLO {
				if ip.IPName == "" {
					continue
				}
				if cl.removeIP(e, "", ip.IPName) > 0 {
					c.Effect = true
				}
				continue
			}
			if ip.IPAddress == e.Primary {
				return cl.end(c, MkErr("InvalidOperation.PrimaryIp"))
			}
			if cl.removeIP(e, ip.IPAddress, "") > 0 {
				c.Effect = true
			}
		}
	}
	if f != nil {
		return cl.end(c, mkErrFor(c, f.Code))
	}
	return cl.end(c, nil)
}

// FormatLog renders calls for traces.
func FormatLog(calls []Call) string {
	var sb strings.Builder
	for i := range calls {
		sb.WriteString(calls[i].String())
		sb.WriteString("\n")
	}
	return sb.String()
}
