// Package c14ref is the reference side of property C14 (a): a generator of
// (CIDR, probe addresses) scenarios, a bit-by-bit CIDR membership test and a
// bit-level evaluator that applies tc-u32 keys to an IPv4/IPv6 header the way the
// classifier does.  It knows nothing about the code under test; the in-package
// harnesses of pkg/tc and plugin/datapath feed it the keys those packages produce.
package c14ref

import (
	"encoding/binary"
	"fmt"
	"net"

	"github.com/AliyunContainerService/terway/zz_verif/vt"
	"pgregory.net/rapid"
)

// Key is one u32 selector key: the 32-bit big-endian word at byte offset Off of the
// network header is compared under Mask with Val.
type Key struct {
	Off     int32
	OffMask int32
	Val     uint32
	Mask    uint32
}

// Field selects the header field the keys are meant to classify.
type Field int

const (
	Src Field = iota
	Dst
)

// Probe kinds.
const (
	KindInside = 0 // network bits of the CIDR + arbitrary host bits
	KindFlip   = 1 // an inside address with exactly one bit flipped at / next to the prefix boundary
	KindFar    = 2 // an arbitrary address
)

// Probe is one address to classify.
type Probe struct {
	Kind int `json:"kind"`
	// Bits: host bits OR-ed into the network (KindInside, KindFlip) or the whole
	// address (KindFar).
	Bits vt.Hex `json:"bits"`
	// Delta (KindFlip): the flipped bit is prefix-1+Delta, clipped into the address;
	// Delta <= 0 flips a network bit (address leaves the CIDR), Delta > 0 a host bit.
	Delta int `json:"delta"`
	// OtherKind says what sits in the *other* address field of the header:
	// 0 arbitrary (Other), 1 an address inside the CIDR, 2 the complement of the probe.
	OtherKind int    `json:"other_kind"`
	Other     vt.Hex `json:"other"`
}

// Scenario is one CIDR with a handful of probes.
type Scenario struct {
	V6     bool   `json:"v6"`
	Addr   vt.Hex `json:"addr"`   // 4 or 16 bytes, host bits possibly set
	Prefix int    `json:"prefix"` // 0..32 / 0..128
	// Form of the net.IPNet handed to the code under test:
	// bit 0: IP keeps its host bits (as in IPNet{IP: podIP, Mask: …}) instead of the
	// masked network; bit 1 (IPv4 only): IP is the 16-byte IPv4-in-IPv6 form that
	// net.ParseIP returns.  The mask always has the family's native length.
	Form   int     `json:"form"`
	Noise  vt.Hex  `json:"noise"` // 40 bytes filling the rest of the header
	Probes []Probe `json:"probes"`
}

func genAddr(t *rapid.T, n int, label string) []byte {
	b := make([]byte, n)
	switch rapid.IntRange(0, 5).Draw(t, label+"-shape") {
	case 0:
		// all zero
	case 1:
		for i := range b {
			b[i] = 0xff
		}
	default:
		// byte classes 0x00 / 0xff / arbitrary: long runs of equal bits next to
		// arbitrary ones, so prefix boundaries fall inside and between runs.
		for i := range b {
			switch rapid.IntRange(0, 3).Draw(t, label+"-cls") {
			case 0:
				b[i] = 0
			case 1:
				b[i] = 0xff
			default:
				b[i] = rapid.Byte().Draw(t, label+"-b")
			}
		}
	}
	return b
}

func isV4Mapped(b []byte) bool {
	if len(b) != 16 {
		return false
	}
	for i := 0; i < 10; i++ {
		if b[i] != 0 {
			return false
		}
	}
	return b[10] == 0xff && b[11] == 0xff
}

// Gen draws a scenario. family: 4, 6 or 0 (either).
func Gen(t *rapid.T, family int) Scenario {
	s := Scenario{}
	switch family {
	case 4:
		s.V6 = false
	case 6:
		s.V6 = true
	default:
		s.V6 = rapid.Bool().Draw(t, "v6")
	}
	n := 4
	if s.V6 {
		n = 16
	}
	s.Addr = genAddr(t, n, "addr")
	if isV4Mapped(s.Addr) {
		// ::ffff:a.b.c.d is indistinguishable from IPv4 a.b.c.d in a net.IP; it is
		// not an IPv6 source address found on the wire.  Kept out of the domain.
		s.Addr[0] = 0xfd
	}
	// every prefix length, with the word / byte boundaries and their neighbours
	// over-represented
	s.Prefix = rapid.OneOf(
		rapid.IntRange(0, n*8),
		rapid.SampledFrom(boundaryPrefixes(n*8)),
	).Draw(t, "prefix")
	if s.V6 {
		s.Form = rapid.IntRange(0, 1).Draw(t, "form")
	} else {
		s.Form = rapid.IntRange(0, 3).Draw(t, "form")
	}
	s.Noise = rapid.SliceOfN(rapid.Byte(), 40, 40).Draw(t, "noise")
	np := rapid.IntRange(1, 4).Draw(t, "nprobes")
	for i := 0; i < np; i++ {
		p := Probe{}
		p.Kind = rapid.SampledFrom([]int{KindInside, KindFlip, KindFlip, KindFar}).Draw(t, "kind")
		p.Bits = genAddr(t, n, "bits")
		if p.Kind == KindFlip {
			p.Delta = rapid.IntRange(-2, 2).Draw(t, "delta")
		}
		p.OtherKind = rapid.IntRange(0, 2).Draw(t, "otherkind")
		p.Other = genAddr(t, n, "other")
		s.Probes = append(s.Probes, p)
	}
	return s
}

func boundaryPrefixes(bits int) []int {
	var out []int
	for b := 0; b <= bits; b += 8 {
		for _, d := range []int{-1, 0, 1} {
			if b+d >= 0 && b+d <= bits {
				out = append(out, b+d)
			}
		}
	}
	return out
}

// Valid reports whether a scenario (e.g. one assembled by a fuzzer or read from a
// replay file) is inside the domain Gen produces.
func (s Scenario) Valid() bool {
	n := 4
	if s.V6 {
		n = 16
	}
	if len(s.Addr) != n || s.Prefix < 0 || s.Prefix > n*8 || len(s.Noise) != 40 || isV4Mapped(s.Addr) {
		return false
	}
	for _, p := range s.Probes {
		if len(p.Bits) != n || len(p.Other) != n {
			return false
		}
	}
	return true
}

func getBit(b []byte, i int) byte { return (b[i/8] >> (7 - uint(i%8))) & 1 }
func flipBit(b []byte, i int)     { b[i/8] ^= 1 << (7 - uint(i%8)) }

// InCIDR is the reference membership test: addr is in base/prefix iff their first
// prefix bits are equal, compared one bit at a time.
func InCIDR(addr, base []byte, prefix int) bool {
	for i := 0; i < prefix; i++ {
		if getBit(addr, i) != getBit(base, i) {
			return false
		}
	}
	return true
}

// inside returns the address with the network bits of the scenario's CIDR and the
// host bits of h.
func (s Scenario) inside(h []byte) []byte {
	out := make([]byte, len(s.Addr))
	for i := 0; i < len(out)*8; i++ {
		var bit byte
		if i < s.Prefix {
			bit = getBit(s.Addr, i)
		} else {
			bit = getBit(h, i)
		}
		if bit == 1 {
			flipBit(out, i) // out starts as zero
		}
	}
	return out
}

// ProbeAddr materialises probe p. flipped is the index of the flipped bit, or -1.
func (s Scenario) ProbeAddr(p Probe) (addr []byte, flipped int) {
	bits := len(s.Addr) * 8
	switch p.Kind {
	case KindInside:
		return s.inside(p.Bits), -1
	case KindFlip:
		a := s.inside(p.Bits)
		i := s.Prefix - 1 + p.Delta
		if i < 0 {
			i = 0
		}
		if i >= bits {
			i = bits - 1
		}
		flipBit(a, i)
		return a, i
	default:
		return append([]byte(nil), p.Bits...), -1
	}
}

// OtherAddr materialises the address put into the header field that the keys must
// not look at.
func (s Scenario) OtherAddr(p Probe, probe []byte) []byte {
	switch p.OtherKind {
	case 1:
		return s.inside(p.Other)
	case 2:
		o := make([]byte, len(probe))
		for i := range o {
			o[i] = ^probe[i]
		}
		return o
	default:
		return append([]byte(nil), p.Other...)
	}
}

// IPNet renders the CIDR the way Form says.
func (s Scenario) IPNet() *net.IPNet {
	bits := len(s.Addr) * 8
	mask := net.CIDRMask(s.Prefix, bits)
	var ip net.IP
	if s.Form&1 == 1 {
		ip = append(net.IP(nil), s.Addr...)
	} else {
		ip = net.IP(s.inside(make([]byte, len(s.Addr))))
	}
	if !s.V6 && s.Form&2 == 2 {
		ip = ip.To16()
	}
	return &net.IPNet{IP: ip, Mask: mask}
}

// Header builds an IPv4 (20 bytes) or IPv6 (40 bytes) header with the given
// addresses; every other byte comes from noise.
func Header(v6 bool, src, dst, noise []byte) []byte {
	if v6 {
		h := append([]byte(nil), noise[:40]...)
		h[0] = 0x60 | h[0]&0x0f
		copy(h[8:24], src)
		copy(h[24:40], dst)
		return h
	}
	h := append([]byte(nil), noise[:20]...)
	h[0] = 0x45
	copy(h[12:16], src)
	copy(h[16:20], dst)
	return h
}

// Eval applies the keys to the header. canonical is the textbook rule
// (word & Mask) == Val for every key (the form `tc` itself installs and the form under
// which two key lists can be compared field by field); kernel is what cls_u32 computes,
// ((word ^ Val) & Mask) == 0.  They differ only for a Val with bits outside Mask.
// An empty key list matches everything.
func Eval(hdr []byte, keys []Key) (canonical, kernel bool, err error) {
	canonical, kernel = true, true
	for i, k := range keys {
		if k.OffMask != 0 {
			return false, false, fmt.Errorf("key %d: OffMask %#x (variable offset) not expected", i, k.OffMask)
		}
		if k.Off < 0 || int(k.Off)+4 > len(hdr) {
			return false, false, fmt.Errorf("key %d: offset %d reads outside the %d-byte IP header", i, k.Off, len(hdr))
		}
		w := binary.BigEndian.Uint32(hdr[k.Off : k.Off+4])
		if w&k.Mask != k.Val {
			canonical = false
		}
		if (w^k.Val)&k.Mask != 0 {
			kernel = false
		}
	}
	return
}

// Result of Check.
type Result struct {
	Violation  string
	Labels     []string
	NonTrivial bool
	Trace      []string
}

func (r *Result) label(l string) { r.Labels = append(r.Labels, l) }

// Describe labels a scenario by the property's non-triviality rule: prefix length not a
// multiple of 8 (IPv4) / 32 (IPv6), or a probe one bit away from an in-CIDR address.
func Describe(s Scenario) *Result {
	r := &Result{}
	unit := 8
	fam := "v4"
	if s.V6 {
		unit = 32
		fam = "v6"
	}
	r.label(fam)
	if s.Prefix%unit != 0 {
		r.label(fam + ":prefix-unaligned")
		r.NonTrivial = true
	}
	if s.Prefix > 0 {
		r.label(fmt.Sprintf("%s:boundary-in-word-%d", fam, (s.Prefix-1)/32))
	}
	if s.Prefix == 0 {
		r.label(fam + ":prefix-0")
	}
	if s.Prefix == len(s.Addr)*8 {
		r.label(fam + ":prefix-max")
	}
	if s.Form&1 == 1 {
		r.label("form:host-bits-set")
	}
	if s.Form&2 == 2 {
		r.label("form:v4-in-16-bytes")
	}
	for _, p := range s.Probes {
		if p.Kind == KindFlip {
			r.NonTrivial = true
		}
	}
	return r
}

// Check classifies every probe of s with keys and compares with InCIDR. what names
// the producer of the keys in messages.
func Check(r *Result, s Scenario, f Field, what string, keys []Key) {
	if r.Violation != "" {
		return
	}
	cidr := fmt.Sprintf("%s/%d", net.IP(s.Addr), s.Prefix)
	for pi, p := range s.Probes {
		probe, flipped := s.ProbeAddr(p)
		other := s.OtherAddr(p, probe)
		want := InCIDR(probe, s.Addr, s.Prefix)
		var hdr []byte
		if f == Src {
			hdr = Header(s.V6, probe, other, s.Noise)
		} else {
			hdr = Header(s.V6, other, probe, s.Noise)
		}
		switch {
		case p.Kind == KindInside:
			r.label("probe:inside")
		case p.Kind == KindFlip && want:
			r.label("probe:host-bit-flipped(still inside)")
		case p.Kind == KindFlip:
			r.label("probe:network-bit-flipped(just outside)")
		case want:
			r.label("probe:arbitrary-inside")
		default:
			r.label("probe:arbitrary-outside")
		}
		if want {
			r.label("expect:match")
		} else {
			r.label("expect:no-match")
		}
		canon, kern, err := Eval(hdr, keys)
		r.Trace = append(r.Trace, fmt.Sprintf("%s probe#%d %s (flipped bit %d) other %s: want %v canonical %v kernel %v err %v keys %s",
			what, pi, net.IP(probe), flipped, net.IP(other), want, canon, kern, err, FmtKeys(keys)))
		if err != nil {
			r.Violation = fmt.Sprintf("%s for %s (form %d): %v; keys %s", what, cidr, s.Form, err, FmtKeys(keys))
			return
		}
		if canon != want {
			fld := "source"
			if f == Dst {
				fld = "destination"
			}
			note := ""
			if kern == want {
				note = " [cls_u32's ((word^val)&mask)==0 would agree: a value carries bits outside its mask, i.e. the key is not in canonical form]"
			}
			r.Violation = fmt.Sprintf("%s for %s (form %d): packet with %s %s (other address %s): keys %s match=%v, address in CIDR=%v%s",
				what, cidr, s.Form, fld, net.IP(probe), net.IP(other), FmtKeys(keys), canon, want, note)
			return
		}
	}
}

// FmtKeys renders keys for messages.
func FmtKeys(keys []Key) string {
	out := "["
	for i, k := range keys {
		if i > 0 {
			out += " "
		}
		out += fmt.Sprintf("{off %d val %#08x mask %#08x}", k.Off, k.Val, k.Mask)
	}
	return out + "]"
}

// ---------------------------------------------------------------------------------
// Pairs: a second CIDR / host address related to a first one, for checks of the code that
// decides whether an installed filter "is" the classifier of a wanted CIDR.

// Relations drawn by GenRelated.
const (
	RelSameCIDR    = 0 // same network and prefix length (host bits / form may differ)
	RelSameBase    = 1 // same address bytes, another prefix length
	RelNested      = 2 // a longer prefix inside the first CIDR
	RelSibling     = 3 // same prefix length, exactly one network bit flipped
	RelIndependent = 4
)

// RelName names a relation for labels.
func RelName(rel int) string {
	return [...]string{"same-cidr", "same-base-other-prefix", "nested-inside", "one-network-bit-flipped", "independent"}[rel]
}

// GenRelated draws a CIDR of b's family related to b by rel (drawn too). Probes are not
// copied: the result has none.
func GenRelated(t *rapid.T, b Scenario) (Scenario, int) {
	n := len(b.Addr)
	bits := n * 8
	rel := rapid.SampledFrom([]int{RelSameCIDR, RelSameBase, RelSameBase, RelNested, RelNested, RelSibling, RelIndependent}).Draw(t, "rel")
	a := Scenario{V6: b.V6, Noise: b.Noise}
	host := genAddr(t, n, "rel-host")
	switch rel {
	case RelSameCIDR:
		a.Addr = b.inside(host)
		a.Prefix = b.Prefix
	case RelSameBase:
		a.Addr = append([]byte(nil), b.Addr...)
		a.Prefix = rapid.IntRange(0, bits).Draw(t, "rel-prefix")
		if a.Prefix == b.Prefix {
			a.Prefix = (b.Prefix + 1) % (bits + 1)
		}
	case RelNested:
		a.Addr = b.inside(host)
		if b.Prefix == bits {
			a.Prefix = bits // nothing narrower exists: degenerates to the same CIDR
			rel = RelSameCIDR
		} else {
			a.Prefix = rapid.IntRange(b.Prefix+1, bits).Draw(t, "rel-prefix")
		}
	case RelSibling:
		a.Addr = b.inside(host)
		a.Prefix = b.Prefix
		if b.Prefix == 0 {
			rel = RelSameCIDR
		} else {
			flipBit(a.Addr, rapid.IntRange(0, b.Prefix-1).Draw(t, "rel-bit"))
		}
	default:
		a.Addr = genAddr(t, n, "rel-addr")
		a.Prefix = rapid.IntRange(0, bits).Draw(t, "rel-prefix")
		// classify what came out
		if a.Prefix == b.Prefix && InCIDR(a.Addr, b.Addr, b.Prefix) {
			rel = RelSameCIDR
		}
	}
	if isV4Mapped(a.Addr) {
		a.Addr[0] = 0xfd
		rel = RelIndependent
		if a.Prefix == b.Prefix && InCIDR(a.Addr, b.Addr, b.Prefix) {
			rel = RelSameCIDR
		}
	}
	if b.V6 {
		a.Form = rapid.IntRange(0, 1).Draw(t, "rel-form")
	} else {
		a.Form = rapid.IntRange(0, 3).Draw(t, "rel-form")
	}
	return a, rel
}

// SameCIDR reports whether a and b denote the same set of addresses.
func SameCIDR(a, b Scenario) bool {
	return a.V6 == b.V6 && a.Prefix == b.Prefix && InCIDR(a.Addr, b.Addr, b.Prefix)
}

// WithBoundaryProbes returns b with extra probes that tell b apart from the CIDR a: the
// first and last address of a, and of b, each also with b's last network bit flipped.
func WithBoundaryProbes(b, a Scenario) Scenario {
	n := len(b.Addr)
	zero, ones := make([]byte, n), make([]byte, n)
	for i := range ones {
		ones[i] = 0xff
	}
	out := b
	out.Probes = append([]Probe(nil), b.Probes...)
	add := func(addr []byte) {
		out.Probes = append(out.Probes, Probe{Kind: KindFar, Bits: addr, OtherKind: 2, Other: make([]byte, n)})
		if b.Prefix > 0 {
			f := append([]byte(nil), addr...)
			flipBit(f, b.Prefix-1)
			out.Probes = append(out.Probes, Probe{Kind: KindFar, Bits: f, OtherKind: 2, Other: make([]byte, n)})
		}
	}
	add(a.inside(zero))
	add(a.inside(ones))
	add(b.inside(zero))
	add(b.inside(ones))
	return out
}

// GenHost draws an address of n bytes related to base: equal, one bit flipped, sharing the
// first 1..n/4-1 32-bit words (the rest arbitrary), or arbitrary.
func GenHost(t *rapid.T, base []byte, label string) []byte {
	n := len(base)
	out := append([]byte(nil), base...)
	switch rapid.IntRange(0, 5).Draw(t, label+"-rel") {
	case 0:
		// equal
	case 1:
		flipBit(out, rapid.IntRange(0, n*8-1).Draw(t, label+"-bit"))
	case 2, 3:
		words := n / 4
		keep := 0
		if words > 1 {
			keep = rapid.IntRange(1, words-1).Draw(t, label+"-keep")
		}
		tail := genAddr(t, n, label+"-tail")
		copy(out[keep*4:], tail[keep*4:])
	case 4:
		// differs only in the last word
		tail := genAddr(t, n, label+"-tail")
		copy(out[n-4:], tail[n-4:])
	default:
		out = genAddr(t, n, label+"-any")
	}
	if isV4Mapped(out) {
		out[0] = 0xfd
	}
	return out
}

// GenBaseAddr draws an address of 4 / 16 bytes outside the IPv4-mapped block.
func GenBaseAddr(t *rapid.T, v6 bool, label string) []byte {
	n := 4
	if v6 {
		n = 16
	}
	a := genAddr(t, n, label)
	if isV4Mapped(a) {
		a[0] = 0xfd
	}
	return a
}

// IsV4Mapped reports whether b is a 16-byte address in ::ffff:0:0/96.
func IsV4Mapped(b []byte) bool { return isV4Mapped(b) }

// FlipBit returns a copy of b with bit i (0 = most significant) flipped.
func FlipBit(b []byte, i int) []byte {
	out := append([]byte(nil), b...)
	flipBit(out, i)
	return out
}
