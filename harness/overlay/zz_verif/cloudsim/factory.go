// Package cloudsim is a stateful simulator of the cloud as seen through
// pkg/factory.Factory (the interface the daemon's local pool talks to). It keeps its
// own ground truth, logs every call, lets the harness hook call arrival (call-time
// monitors), inject faults per call kind and hold calls at gates.
//
// Contract respected (read from pkg/factory/aliyun/aliyun.go): an error result lists
// every resource that was created ((eni,nil,nil,err), (ips,err)); (nil, err) means no
// effect. UnAssign of an address that is already gone and Delete of an interface that
// is already gone succeed (the real client maps the NotFound codes to success).
// Addresses are issued from a monotone counter, so an address value is never reused.
package cloudsim

import (
	"fmt"
	"net/netip"
	"sort"
	"sync"

	sdkErr "github.com/aliyun/alibaba-cloud-sdk-go/sdk/errors"

	"github.com/AliyunContainerService/terway/types/daemon"
)

// Call kinds.
const (
	KCreate    = "create"
	KAssign4   = "assign4"
	KAssign6   = "assign6"
	KUnAssign4 = "unassign4"
	KUnAssign6 = "unassign6"
	KDelete    = "delete"
	KLoad      = "load"
)

// Fault modes.
const (
	FBefore  = "before"  // error, no effect
	FAfter   = "after"   // full effect, error (resources listed in the result)
	FPartial = "partial" // K of the requested addresses assigned, error
)

type Fault struct {
	Kind string `json:"kind"`
	Mode string `json:"mode"`
	Code string `json:"code"`
	K    int    `json:"k,omitempty"`
}

type ENI struct {
	ID, MAC, Type string
	Trunk, ERdma  bool
	Primary       netip.Addr
	V4, V6        map[netip.Addr]bool
	ByFactory     bool
}

type Call struct {
	Seq   int
	Kind  string
	ENI   string
	Count int
	V6Cnt int
	Type  string
	IPs   []netip.Addr
	Fault *Fault
	Err   bool
}

func (c Call) String() string {
	f := ""
	if c.Fault != nil {
		f = fmt.Sprintf(" fault=%s/%s", c.Fault.Mode, c.Fault.Code)
	}
	return fmt.Sprintf("#%d %s eni=%s n=%d n6=%d type=%s ips=%v%s", c.Seq, c.Kind, c.ENI, c.Count, c.V6Cnt, c.Type, c.IPs, f)
}

type Cloud struct {
	mu       sync.Mutex
	ENIs     map[string]*ENI
	Deleted  map[string]bool
	Issued   map[netip.Addr]string // every address ever issued -> interface it was issued on
	Removed  map[netip.Addr]bool // addresses unassigned, dropped by drift, or gone with their ENI
	nextENI  int
	nextIP   uint32
	nextIP6  uint64
	Log      []Call
	faults   []Fault
	inflight int
	creating int

	// NoV4 / NoV6: LoadNetworkInterface omits that family (the real factory only reads the
	// families that are enabled).
	NoV4, NoV6 bool

	// Glitch: address -> number of following LoadNetworkInterface answers that omit it
	// although it is still assigned (a metadata service that briefly serves an incomplete
	// list).
	Glitch map[netip.Addr]int

	// Hook is called under the cloud lock when a call arrives, before any effect.
	Hook func(cl *Cloud, c *Call)
	// After is called under the cloud lock when a call has finished (effect applied).
	After func(cl *Cloud, c *Call)
	// AfterLoad, if set, is called WITHOUT the lock after LoadNetworkInterface has read the
	// address list and before it returns it (a slow metadata service: the answer is stale
	// by the time the caller sees it).
	AfterLoad func()
	// Gate, if set, is called WITHOUT the lock after the hook and before the effect;
	// the harness may block there to hold the call.
	Gate func(c *Call)
}

func New() *Cloud {
	return &Cloud{ENIs: map[string]*ENI{}, Deleted: map[string]bool{}, Removed: map[netip.Addr]bool{}, Issued: map[netip.Addr]string{}, nextIP: 10}
}

func (cl *Cloud) Lock()   { cl.mu.Lock() }
func (cl *Cloud) Unlock() { cl.mu.Unlock() }

func (cl *Cloud) newV4() netip.Addr {
	cl.nextIP++
	n := cl.nextIP
	return netip.AddrFrom4([4]byte{10, byte(n >> 16), byte(n >> 8), byte(n)})
}

func (cl *Cloud) newV6() netip.Addr {
	cl.nextIP6++
	n := cl.nextIP6
	var b [16]byte
	b[0], b[1] = 0xfd, 0x00
	for i := 0; i < 8; i++ {
		b[15-i] = byte(n >> (8 * i))
	}
	return netip.AddrFrom16(b)
}

// AddENI creates a pre-attached interface (state that exists before the daemon starts).
func (cl *Cloud) AddENI(typ string, nV4, nV6 int) *daemon.ENI {
	cl.mu.Lock()
	defer cl.mu.Unlock()
	e := cl.mkENI(typ, nV4, nV6, false)
	return cl.toDaemon(e)
}

// AddENIWithMAC is AddENI with a caller-chosen MAC address.
func (cl *Cloud) AddENIWithMAC(typ string, nV4, nV6 int, mac string) *daemon.ENI {
	cl.mu.Lock()
	defer cl.mu.Unlock()
	e := cl.mkENI(typ, nV4, nV6, false)
	e.MAC = mac
	return cl.toDaemon(e)
}

// RemoveENI detaches and deletes an interface behind terway's back.
func (cl *Cloud) RemoveENI(id string) {
	cl.mu.Lock()
	defer cl.mu.Unlock()
	if e := cl.ENIs[id]; e != nil {
		for a := range e.V4 {
			cl.Removed[a] = true
		}
		for a := range e.V6 {
			cl.Removed[a] = true
		}
		delete(cl.ENIs, id)
		cl.Deleted[id] = true
	}
}

// SortedAddrs returns the keys of an address set in ascending order.
func SortedAddrs(m map[netip.Addr]bool) []netip.Addr { return sortedAddrs(m) }

func (cl *Cloud) mkENI(typ string, nV4, nV6 int, byFactory bool) *ENI {
	cl.nextENI++
	e := &ENI{
		ID:   fmt.Sprintf("eni-%d", cl.nextENI),
		MAC:  fmt.Sprintf("00:16:3e:00:%02x:%02x", cl.nextENI>>8, cl.nextENI&0xff),
		Type: typ, Trunk: typ == "trunk", ERdma: typ == "erdma",
		V4: map[netip.Addr]bool{}, V6: map[netip.Addr]bool{}, ByFactory: byFactory,
	}
	if nV4 < 1 {
		nV4 = 1 // an interface always has a primary IPv4 address
	}
	for i := 0; i < nV4; i++ {
		a := cl.newV4()
		if i == 0 {
			e.Primary = a
		}
		e.V4[a] = true
		cl.Issued[a] = e.ID
	}
	for i := 0; i < nV6; i++ {
		a := cl.newV6()
		e.V6[a] = true
		cl.Issued[a] = e.ID
	}
	cl.ENIs[e.ID] = e
	return e
}

func (cl *Cloud) toDaemon(e *ENI) *daemon.ENI {
	d := &daemon.ENI{ID: e.ID, MAC: e.MAC, Trunk: e.Trunk, ERdma: e.ERdma, VSwitchID: "vsw-1"}
	d.PrimaryIP.SetIP(e.Primary.String())
	d.GatewayIP.SetIP("10.255.255.253")
	d.GatewayIP.SetIP("fd00::ffff:ffff:ffff:fffd")
	d.VSwitchCIDR.SetIPNet("10.0.0.0/8")
	d.VSwitchCIDR.SetIPNet("fd00::/64")
	return d
}

// SetFaults replaces the pending fault queue. A fault is consumed by the next call of
// its kind.
func (cl *Cloud) SetFaults(f []Fault) {
	cl.mu.Lock()
	defer cl.mu.Unlock()
	cl.faults = append([]Fault(nil), f...)
}

func (cl *Cloud) ClearFaults() { cl.SetFaults(nil) }

// PendingFaults returns the number of unconsumed faults.
func (cl *Cloud) PendingFaults() int {
	cl.mu.Lock()
	defer cl.mu.Unlock()
	return len(cl.faults)
}

func (cl *Cloud) takeFault(kind string) *Fault {
	for i, f := range cl.faults {
		if f.Kind == kind {
			cl.faults = append(cl.faults[:i], cl.faults[i+1:]...)
			ff := f
			return &ff
		}
	}
	return nil
}

func mkErr(code string) error {
	if code == "" {
		code = "InternalError"
	}
	return sdkErr.NewServerError(400, fmt.Sprintf(`{"Code":%q,"Message":"injected","RequestId":"sim"}`, code), "")
}

// Inflight returns the number of factory calls currently executing.
func (cl *Cloud) Inflight() int {
	cl.mu.Lock()
	defer cl.mu.Unlock()
	return cl.inflight
}

// Creating returns the number of CreateNetworkInterface calls in progress (locked).
func (cl *Cloud) CreatingLocked() int { return cl.creating }

func (cl *Cloud) begin(c *Call) *Fault {
	cl.mu.Lock()
	c.Seq = len(cl.Log) + 1
	c.Fault = cl.takeFault(c.Kind)
	cl.inflight++
	if c.Kind == KCreate {
		cl.creating++
	}
	if cl.Hook != nil {
		cl.Hook(cl, c)
	}
	g := cl.Gate
	cl.mu.Unlock()
	if g != nil {
		g(c)
	}
	cl.mu.Lock()
	return c.Fault
}

func (cl *Cloud) end(c *Call, err error) {
	c.Err = err != nil
	cl.Log = append(cl.Log, *c)
	if cl.After != nil {
		cl.After(cl, c)
	}
	cl.inflight--
	if c.Kind == KCreate {
		cl.creating--
	}
	cl.mu.Unlock()
}

// Drift removes an address from an interface behind terway's back. idx selects among
// the non-primary addresses in sorted order. Returns the address removed (zero if none).
func (cl *Cloud) Drift(eniIdx, idx int, v6 bool) (string, netip.Addr) {
	cl.mu.Lock()
	defer cl.mu.Unlock()
	ids := cl.sortedENIsLocked()
	if len(ids) == 0 {
		return "", netip.Addr{}
	}
	e := cl.ENIs[ids[eniIdx%len(ids)]]
	var cand []netip.Addr
	set := e.V4
	if v6 {
		set = e.V6
	}
	for a := range set {
		if a != e.Primary {
			cand = append(cand, a)
		}
	}
	if len(cand) == 0 {
		return e.ID, netip.Addr{}
	}
	sort.Slice(cand, func(i, j int) bool { return cand[i].Less(cand[j]) })
	a := cand[idx%len(cand)]
	delete(set, a)
	cl.Removed[a] = true
	return e.ID, a
}

// GlitchAddr makes the next `times` metadata answers omit one non-primary address of an
// interface (selected like Drift) while it stays assigned. Returns interface and address.
func (cl *Cloud) GlitchAddr(eniIdx, idx int, v6 bool, times int) (string, netip.Addr) {
	cl.mu.Lock()
	defer cl.mu.Unlock()
	ids := cl.sortedENIsLocked()
	if len(ids) == 0 {
		return "", netip.Addr{}
	}
	e := cl.ENIs[ids[eniIdx%len(ids)]]
	var cand []netip.Addr
	set := e.V4
	if v6 {
		set = e.V6
	}
	for a := range set {
		if a != e.Primary {
			cand = append(cand, a)
		}
	}
	if len(cand) == 0 {
		return e.ID, netip.Addr{}
	}
	sort.Slice(cand, func(i, j int) bool { return cand[i].Less(cand[j]) })
	a := cand[idx%len(cand)]
	if cl.Glitch == nil {
		cl.Glitch = map[netip.Addr]int{}
	}
	cl.Glitch[a] += times
	return e.ID, a
}

func (cl *Cloud) glitchFilterLocked(in []netip.Addr) []netip.Addr {
	if len(cl.Glitch) == 0 {
		return in
	}
	var out []netip.Addr
	for _, a := range in {
		if n := cl.Glitch[a]; n > 0 {
			if n == 1 {
				delete(cl.Glitch, a)
			} else {
				cl.Glitch[a] = n - 1
			}
			continue
		}
		out = append(out, a)
	}
	return out
}

func (cl *Cloud) sortedENIsLocked() []string {
	var ids []string
	for id := range cl.ENIs {
		ids = append(ids, id)
	}
	sort.Strings(ids)
	return ids
}

// Snapshot returns a deep copy of the interface table.
func (cl *Cloud) Snapshot() map[string]*ENI {
	cl.mu.Lock()
	defer cl.mu.Unlock()
	return cl.snapshotLocked()
}

func (cl *Cloud) snapshotLocked() map[string]*ENI {
	out := map[string]*ENI{}
	for id, e := range cl.ENIs {
		c := *e
		c.V4 = map[netip.Addr]bool{}
		c.V6 = map[netip.Addr]bool{}
		for a := range e.V4 {
			c.V4[a] = true
		}
		for a := range e.V6 {
			c.V6[a] = true
		}
		out[id] = &c
	}
	return out
}

// Clone deep-copies the ground truth (for crash/restart experiments). Hooks, gates,
// faults and the log are not copied.
func (cl *Cloud) Clone() *Cloud {
	cl.mu.Lock()
	defer cl.mu.Unlock()
	return cl.CloneLocked()
}

// CloneLocked is Clone for callers that already hold the cloud lock (hooks).
func (cl *Cloud) CloneLocked() *Cloud {
	n := New()
	n.ENIs = cl.snapshotLocked()
	for k := range cl.Deleted {
		n.Deleted[k] = true
	}
	for k := range cl.Removed {
		n.Removed[k] = true
	}
	for k, v := range cl.Issued {
		n.Issued[k] = v
	}
	n.nextENI, n.nextIP, n.nextIP6 = cl.nextENI, cl.nextIP, cl.nextIP6
	return n
}

// HasAddrLocked reports whether the address is currently assigned to the interface.
func (cl *Cloud) HasAddrLocked(eni string, a netip.Addr) bool {
	e := cl.ENIs[eni]
	if e == nil {
		return false
	}
	return e.V4[a] || e.V6[a]
}

// ---------------------------------------------------------------- factory.Factory

// Factory returns the factory.Factory view of the cloud.
func (cl *Cloud) Factory() *Factory { return &Factory{cl: cl} }

type Factory struct{ cl *Cloud }

func (f *Factory) CreateNetworkInterface(ipv4, ipv6 int, eniType string) (*daemon.ENI, []netip.Addr, []netip.Addr, error) {
	cl := f.cl
	c := &Call{Kind: KCreate, Count: ipv4, V6Cnt: ipv6, Type: eniType}
	ft := cl.begin(c)
	if ft != nil && ft.Mode == FBefore {
		err := mkErr(ft.Code)
		cl.end(c, err)
		return nil, nil, nil, err
	}
	e := cl.mkENI(eniType, ipv4, ipv6, true)
	c.ENI = e.ID
	d := cl.toDaemon(e)
	v4, v6 := sortedAddrs(e.V4), sortedAddrs(e.V6)
	if ft != nil {
		err := mkErr(ft.Code)
		cl.end(c, err)
		if ft.Mode == FPartial {
			// failure after the addresses were parsed (e.g. final status wait)
			return d, v4, v6, err
		}
		return d, nil, nil, err
	}
	cl.end(c, nil)
	return d, v4, v6, nil
}

func sortedAddrs(m map[netip.Addr]bool) []netip.Addr {
	var out []netip.Addr
	for a := range m {
		out = append(out, a)
	}
	sort.Slice(out, func(i, j int) bool { return out[i].Less(out[j]) })
	return out
}

func (f *Factory) assign(kind, eniID string, count int, v6 bool) ([]netip.Addr, error) {
	cl := f.cl
	c := &Call{Kind: kind, ENI: eniID, Count: count}
	ft := cl.begin(c)
	e := cl.ENIs[eniID]
	if e == nil {
		err := mkErr("InvalidEniId.NotFound")
		cl.end(c, err)
		return nil, err
	}
	if ft != nil && ft.Mode == FBefore {
		err := mkErr(ft.Code)
		cl.end(c, err)
		return nil, err
	}
	n := count
	if ft != nil && ft.Mode == FPartial {
		n = ft.K % (count + 1)
	}
	var ips []netip.Addr
	for i := 0; i < n; i++ {
		if v6 {
			a := cl.newV6()
			e.V6[a] = true
			cl.Issued[a] = e.ID
			ips = append(ips, a)
		} else {
			a := cl.newV4()
			e.V4[a] = true
			cl.Issued[a] = e.ID
			ips = append(ips, a)
		}
	}
	c.IPs = ips
	if ft != nil {
		err := mkErr(ft.Code)
		cl.end(c, err)
		return ips, err
	}
	cl.end(c, nil)
	return ips, nil
}

func (f *Factory) AssignNIPv4(eniID string, count int, mac string) ([]netip.Addr, error) {
	return f.assign(KAssign4, eniID, count, false)
}

func (f *Factory) AssignNIPv6(eniID string, count int, mac string) ([]netip.Addr, error) {
	return f.assign(KAssign6, eniID, count, true)
}

func (f *Factory) unassign(kind, eniID string, ips []netip.Addr, v6 bool) error {
	cl := f.cl
	c := &Call{Kind: kind, ENI: eniID, IPs: append([]netip.Addr(nil), ips...), Count: len(ips)}
	ft := cl.begin(c)
	if ft != nil && ft.Mode == FBefore {
		err := mkErr(ft.Code)
		cl.end(c, err)
		return err
	}
	if e := cl.ENIs[eniID]; e != nil {
		for _, a := range ips {
			if v6 {
				delete(e.V6, a)
			} else if a != e.Primary {
				delete(e.V4, a)
			}
			cl.Removed[a] = true
		}
	}
	if ft != nil {
		err := mkErr(ft.Code)
		cl.end(c, err)
		return err
	}
	cl.end(c, nil)
	return nil
}

func (f *Factory) UnAssignNIPv4(eniID string, ips []netip.Addr, mac string) error {
	return f.unassign(KUnAssign4, eniID, ips, false)
}

func (f *Factory) UnAssignNIPv6(eniID string, ips []netip.Addr, mac string) error {
	return f.unassign(KUnAssign6, eniID, ips, true)
}

func (f *Factory) DeleteNetworkInterface(eniID string) error {
	cl := f.cl
	c := &Call{Kind: KDelete, ENI: eniID}
	ft := cl.begin(c)
	if ft != nil && ft.Mode == FBefore {
		err := mkErr(ft.Code)
		cl.end(c, err)
		return err
	}
	if e := cl.ENIs[eniID]; e != nil {
		for a := range e.V4 {
			cl.Removed[a] = true
		}
		for a := range e.V6 {
			cl.Removed[a] = true
		}
		delete(cl.ENIs, eniID)
		cl.Deleted[eniID] = true
	}
	if ft != nil {
		err := mkErr(ft.Code)
		cl.end(c, err)
		return err
	}
	cl.end(c, nil)
	return nil
}

func (f *Factory) LoadNetworkInterface(mac string) ([]netip.Addr, []netip.Addr, error) {
	cl := f.cl
	c := &Call{Kind: KLoad}
	ft := cl.begin(c)
	if ft != nil {
		err := mkErr(ft.Code)
		cl.end(c, err)
		return nil, nil, err
	}
	for _, e := range cl.ENIs {
		if e.MAC == mac {
			c.ENI = e.ID
			v4, v6 := cl.glitchFilterLocked(sortedAddrs(e.V4)), cl.glitchFilterLocked(sortedAddrs(e.V6))
			if cl.NoV4 {
				v4 = nil
			}
			if cl.NoV6 {
				v6 = nil
			}
			al := cl.AfterLoad
			cl.end(c, nil)
			if al != nil {
				al()
			}
			return v4, v6, nil
		}
	}
	err := fmt.Errorf("mac %s not found in metadata", mac)
	cl.end(c, err)
	return nil, nil, err
}

func (f *Factory) GetAttachedNetworkInterface(preferTrunkID string) ([]*daemon.ENI, error) {
	cl := f.cl
	cl.mu.Lock()
	defer cl.mu.Unlock()
	var out []*daemon.ENI
	for _, id := range cl.sortedENIsLocked() {
		out = append(out, cl.toDaemon(cl.ENIs[id]))
	}
	return out, nil
}
