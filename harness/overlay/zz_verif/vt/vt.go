// Package vt is the shared runtime of the verification harnesses: it runs a
// property as (generate plain-data scenario) -> (execute scenario against the real
// code and an oracle), records per-case statistics for the evidence file, writes the
// last failing (= shrunk) scenario as a replay file and can re-run a replay file
// without the property-testing library.
//
// Environment:
//
//	VERIF_OUT     directory for per-test statistics (<test>.<pid>.json)
//	VERIF_REPLAYS directory for replay files written on failure
//	VERIF_PROP    property id the run belongs to (used in replay file names)
//	VERIF_REPLAY  path of a replay file: run only that scenario, without rapid
//	VERIF_TIER    quick|thorough (harnesses may widen bounds for thorough)
package vt

import (
	"encoding/json"
	"fmt"
	"hash/fnv"
	"os"
	"path/filepath"
	"runtime/debug"
	"sort"
	"strconv"
	"strings"
	"sync"
	"testing"

	"pgregory.net/rapid"
)

// TB is the subset of testing.TB / *rapid.T the harness needs.
type TB interface {
	Fatalf(format string, args ...any)
	Logf(format string, args ...any)
}

// Ctx is handed to the execution function of a property for one case.
type Ctx struct {
	tb        TB
	test      string
	scenario  json.RawMessage
	labels    []string
	nt        bool
	inconc    string
	trace     []string
	replaying bool
}

type inconclusive struct{ reason string }

// Label classifies the case (histogram in the evidence).
func (c *Ctx) Label(l string) { c.labels = append(c.labels, l) }

// Labelf is Label with formatting.
func (c *Ctx) Labelf(f string, a ...any) { c.labels = append(c.labels, fmt.Sprintf(f, a...)) }

// NonTrivial marks the case non-trivial by the property's stated rule.
func (c *Ctx) NonTrivial() { c.nt = true }

// Trace appends a line to the trace stored in the replay file on failure.
func (c *Ctx) Trace(f string, a ...any) {
	if len(c.trace) < 4000 {
		c.trace = append(c.trace, fmt.Sprintf(f, a...))
	}
	if c.replaying && os.Getenv("VERIF_REPLAY_VERBOSE") != "" {
		fmt.Printf("TRACE "+f+"\n", a...)
	}
}

// Replaying reports whether this is a replay run (harness may print more).
func (c *Ctx) Replaying() bool { return c.replaying }

// Inconclusive abandons the case without a verdict (e.g. a bounded wait ran out).
func (c *Ctx) Inconclusive(reason string) { panic(inconclusive{reason}) }

// Fatalf reports a violation of the property for this case.
func (c *Ctx) Fatalf(f string, a ...any) {
	msg := fmt.Sprintf(f, a...)
	c.writeReplay(msg)
	c.tb.Fatalf("%s", msg)
}

// Logf logs through the underlying test.
func (c *Ctx) Logf(f string, a ...any) { c.tb.Logf(f, a...) }

func (c *Ctx) writeReplay(msg string) {
	dir := os.Getenv("VERIF_REPLAYS")
	if dir == "" || c.replaying {
		return
	}
	_ = os.MkdirAll(dir, 0o755)
	prop := os.Getenv("VERIF_PROP")
	rec := map[string]any{
		"property": prop,
		"test":     c.test,
		"unit":     os.Getenv("VERIF_UNIT"),
		"message":  msg,
		"scenario": c.scenario,
		"trace":    c.trace,
	}
	b, _ := json.MarshalIndent(rec, "", " ")
	p := filepath.Join(dir, fmt.Sprintf("%s-%s-%d.json", prop, c.test, os.Getpid()))
	_ = os.WriteFile(p, b, 0o644)
	statsFor(c.test).noteFailure(p, msg)
}

type stats struct {
	mu          sync.Mutex
	Test        string            `json:"test"`
	Evaluations int               `json:"evaluations"`
	NonTrivial  int               `json:"nontrivial"`
	NTSigs      []uint64          `json:"nt_sigs"`
	SigOverflow bool              `json:"sig_overflow"`
	Labels      map[string]int    `json:"labels"`
	Samples     []json.RawMessage `json:"samples"`
	Inconcl     map[string]int    `json:"inconclusive"`
	Failed      bool              `json:"failed"`
	Replay      string            `json:"replay"`
	Message     string            `json:"message"`
	sigset      map[uint64]struct{}
	trivSample  bool
}

const sigCap = 400000

var (
	allMu sync.Mutex
	all   = map[string]*stats{}
)

func statsFor(test string) *stats {
	allMu.Lock()
	defer allMu.Unlock()
	s := all[test]
	if s == nil {
		s = &stats{Test: test, Labels: map[string]int{}, Inconcl: map[string]int{}, sigset: map[uint64]struct{}{}}
		all[test] = s
	}
	return s
}

func (s *stats) noteFailure(path, msg string) {
	s.mu.Lock()
	defer s.mu.Unlock()
	s.Failed = true
	s.Replay = path
	s.Message = msg
}

func (s *stats) record(c *Ctx) {
	s.mu.Lock()
	defer s.mu.Unlock()
	s.Evaluations++
	seen := map[string]bool{}
	for _, l := range c.labels {
		if !seen[l] {
			seen[l] = true
			s.Labels[l]++
		}
	}
	if c.inconc != "" {
		s.Inconcl[c.inconc]++
		return
	}
	if c.nt {
		s.NonTrivial++
		h := fnv.New64a()
		h.Write(c.scenario)
		sig := h.Sum64()
		if _, ok := s.sigset[sig]; !ok {
			if len(s.sigset) < sigCap {
				s.sigset[sig] = struct{}{}
				if len(s.Samples) < 4 && len(c.scenario) < 6000 {
					s.Samples = append(s.Samples, c.scenario)
				}
			} else {
				s.SigOverflow = true
			}
		}
	} else if !s.trivSample && len(c.scenario) < 3000 {
		s.trivSample = true
		s.Samples = append(s.Samples, c.scenario)
	}
}

func (s *stats) flush() {
	dir := os.Getenv("VERIF_OUT")
	if dir == "" {
		return
	}
	s.mu.Lock()
	defer s.mu.Unlock()
	s.NTSigs = s.NTSigs[:0]
	for k := range s.sigset {
		s.NTSigs = append(s.NTSigs, k)
	}
	sort.Slice(s.NTSigs, func(i, j int) bool { return s.NTSigs[i] < s.NTSigs[j] })
	_ = os.MkdirAll(dir, 0o755)
	b, _ := json.Marshal(s)
	_ = os.WriteFile(filepath.Join(dir, fmt.Sprintf("%s.%d.json", s.Test, os.Getpid())), b, 0o644)
}

// Thorough reports whether the thorough tier is running.
func Thorough() bool { return os.Getenv("VERIF_TIER") == "thorough" }

// Scale returns q in the quick tier and th in the thorough tier.
func Scale(q, th int) int {
	if Thorough() {
		return th
	}
	return q
}

// EnvInt reads an integer from the environment.
func EnvInt(key string, def int) int {
	if v, err := strconv.Atoi(os.Getenv(key)); err == nil {
		return v
	}
	return def
}

// Run runs one property. gen draws a plain-data, JSON-serialisable scenario; run
// executes it and reports violations through Ctx.Fatalf. A panic inside run is a
// violation too (harnesses for "never panics" properties rely on this).
func Run[S any](t *testing.T, gen func(*rapid.T) S, run func(*Ctx, S)) {
	name := strings.ReplaceAll(t.Name(), "/", "_")
	st := statsFor(name)
	t.Cleanup(st.flush)

	exec := func(tb TB, s S, replaying bool) {
		b, err := json.Marshal(s)
		if err != nil {
			tb.Fatalf("scenario not serialisable: %v", err)
		}
		c := &Ctx{tb: tb, test: name, scenario: b, replaying: replaying}
		defer st.record(c)
		defer func() {
			if r := recover(); r != nil {
				if ic, ok := r.(inconclusive); ok {
					c.inconc = ic.reason
					return
				}
				if isRapidInternal(r) {
					panic(r)
				}
				msg := fmt.Sprintf("panic: %v\n%s", r, debug.Stack())
				c.writeReplay(msg)
				panic(r)
			}
		}()
		run(c, s)
	}

	if p := os.Getenv("VERIF_REPLAY"); p != "" {
		raw, err := os.ReadFile(p)
		if err != nil {
			t.Fatalf("replay file: %v", err)
		}
		var rec struct {
			Test     string          `json:"test"`
			Scenario json.RawMessage `json:"scenario"`
		}
		if err := json.Unmarshal(raw, &rec); err != nil {
			t.Fatalf("replay file: %v", err)
		}
		if rec.Test != name {
			t.Skipf("replay file is for %s", rec.Test)
		}
		var s S
		if err := json.Unmarshal(rec.Scenario, &s); err != nil {
			t.Fatalf("replay scenario: %v", err)
		}
		times := EnvInt("VERIF_REPLAY_TIMES", 1)
		for i := 0; i < times; i++ {
			exec(t, s, true)
		}
		return
	}

	rapid.Check(t, func(rt *rapid.T) {
		s := gen(rt)
		exec(rt, s, false)
	})
}

// rapid signals invalid data / stop via panics of its own unexported types; those
// must pass through untouched.
func isRapidInternal(r any) bool {
	tn := fmt.Sprintf("%T", r)
	return strings.HasPrefix(tn, "rapid.") || strings.HasPrefix(tn, "*rapid.")
}

var (
	knownOnce sync.Once
	knownOpen map[string]bool
)

// Known reports whether finding id is listed as an open (unrepaired) finding in
// /verif/known_findings.json (path in VERIF_KNOWN_FILE). The file is only read.
func Known(id string) bool {
	knownOnce.Do(func() {
		knownOpen = map[string]bool{}
		b, err := os.ReadFile(os.Getenv("VERIF_KNOWN_FILE"))
		if err != nil {
			return
		}
		var k struct {
			Findings []struct {
				ID string `json:"id"`
			} `json:"findings"`
		}
		if json.Unmarshal(b, &k) == nil {
			for _, f := range k.Findings {
				knownOpen[f.ID] = true
			}
		}
	})
	return knownOpen[id]
}

// KnownFindingLine prints the line the interface requires for a listed finding whose
// deterministic witness still fails.
func KnownFindingLine(property, what string) {
	fmt.Printf("KNOWN-FINDING: property=%s %s\n", property, what)
}

// Hex is a byte slice that serialises as a hex string (readable scenarios).
type Hex []byte

func (h Hex) MarshalJSON() ([]byte, error) { return json.Marshal(fmt.Sprintf("%x", []byte(h))) }

func (h *Hex) UnmarshalJSON(b []byte) error {
	var s string
	if err := json.Unmarshal(b, &s); err != nil {
		return err
	}
	out := make([]byte, len(s)/2)
	for i := range out {
		v, err := strconv.ParseUint(s[2*i:2*i+2], 16, 8)
		if err != nil {
			return err
		}
		out[i] = byte(v)
	}
	*h = out
	return nil
}

type witnessTB struct {
	t      *testing.T
	failed bool
	msg    string
}

type witnessFail struct{}

func (w *witnessTB) Fatalf(f string, a ...any) {
	w.failed = true
	w.msg = fmt.Sprintf(f, a...)
	panic(witnessFail{})
}
func (w *witnessTB) Logf(f string, a ...any) { w.t.Logf(f, a...) }

// Witness runs the deterministic witness scenario of a listed known finding. While
// the finding is listed as open AND the witness still violates the property, it
// prints the KNOWN-FINDING line. It never fails the test: the finding is recorded, not
// re-alarmed; if the witness passes (the defect was repaired) nothing is printed.
func Witness[S any](t *testing.T, property, id, what string, s S, run func(*Ctx, S)) {
	if !Known(id) {
		t.Logf("finding %s is not listed as open; witness not run", id)
		return
	}
	times := 5 // schedule-dependent witnesses get a few tries
	for i := 0; i < times; i++ {
		wt := &witnessTB{t: t}
		b, _ := json.Marshal(s)
		c := &Ctx{tb: wt, test: t.Name(), scenario: b, replaying: true}
		func() {
			defer func() {
				if r := recover(); r != nil {
					if _, ok := r.(witnessFail); ok {
						return
					}
					if _, ok := r.(inconclusive); ok {
						return
					}
					wt.failed = true
					wt.msg = fmt.Sprintf("panic: %v", r)
				}
			}()
			run(c, s)
		}()
		if wt.failed {
			KnownFindingLine(property, fmt.Sprintf("id=%s %s", id, what))
			t.Logf("witness still fails: %s", wt.msg)
			return
		}
	}
	t.Logf("witness for %s no longer fails", id)
}
