package c03cloud

import (
	"fmt"
	"sort"

	aliyunClient "github.com/AliyunContainerService/terway/pkg/aliyun/client"
	networkv1beta1 "github.com/AliyunContainerService/terway/pkg/apis/network.alibabacloud.com/v1beta1"
)

// The C03 oracle, shared by the function-level harness and the closed loop. It is
// written from the property statement, not from the code under test:
//
//	an address bound to (PodID, PodUID) may be unbound / marked Deleting / removed from
//	the record / named in an UnAssign*, Delete* or Detach* call only if
//	  (the pod no longer exists on the node, or its sandbox has exited)
//	  and (PodUID == "" or the final runtime status reported for PodUID is "deleted").

// PodView is what the oracle needs to know about a pod object on the node.
type PodView struct {
	UID    string
	Exited bool // phase Succeeded or Failed
}

// RefFinal is the reference for "latest timestamp wins": the status with the strictly
// greatest LastUpdateTime among non-nil entries. Ties are outside the domain (the
// harnesses never generate them); ok is false when there is no entry.
func RefFinal(st map[networkv1beta1.CNIStatus]*networkv1beta1.CNIStatusInfo) (networkv1beta1.CNIStatus, bool) {
	var best networkv1beta1.CNIStatus
	var bestT int64
	found := false
	keys := make([]string, 0, len(st))
	for k := range st {
		keys = append(keys, string(k))
	}
	sort.Strings(keys)
	for _, k := range keys {
		v := st[networkv1beta1.CNIStatus(k)]
		if v == nil {
			continue
		}
		t := v.LastUpdateTime.Time.UnixNano()
		if !found || t > bestT {
			best, bestT, found = networkv1beta1.CNIStatus(k), t, true
		}
	}
	return best, found
}

// PodStillThere: a live (not exited) pod object with that name and, when the binding
// carries a UID, that UID.
func PodStillThere(podID, podUID string, pods map[string]PodView) bool {
	p, ok := pods[podID]
	if !ok || p.Exited {
		return false
	}
	return podUID == "" || p.UID == podUID
}

// NameStillThere: a live pod object with that name, whatever its UID.
func NameStillThere(podID string, pods map[string]PodView) bool {
	p, ok := pods[podID]
	return ok && !p.Exited
}

// TeardownReported: PodUID == "" (bindings taken over from a version that did not
// record UIDs carry no teardown protocol) or final runtime status deleted.
func TeardownReported(podUID string, rt *networkv1beta1.NodeRuntime) bool {
	if podUID == "" {
		return true
	}
	if rt == nil {
		return false
	}
	e, ok := rt.Status.Pods[podUID]
	if !ok || e == nil {
		return false
	}
	s, ok := RefFinal(e.Status)
	return ok && s == networkv1beta1.CNIStatusDeleted
}

// MayReclaim is the release gate of the statement.
func MayReclaim(podID, podUID string, pods map[string]PodView, rt *networkv1beta1.NodeRuntime) (bool, string) {
	if PodStillThere(podID, podUID, pods) {
		return false, "pod still exists on the node"
	}
	if !TeardownReported(podUID, rt) {
		return false, "teardown of " + podUID + " not reported (final runtime status is not deleted)"
	}
	return true, ""
}

// Touch is one reclaiming action on an address that was bound before the step.
type Touch struct {
	ENI, Family, IP, PodID, PodUID, What string
}

func (t Touch) String() string {
	return fmt.Sprintf("%s %s on %s bound to %s/%s: %s", t.Family, t.IP, t.ENI, t.PodID, t.PodUID, t.What)
}

func wantGone(status string) bool {
	return status == aliyunClient.ENIStatusDeleting || status == aliyunClient.ENIStatusDetaching
}

// Touches lists every reclaiming action between two versions of the record (and in
// the cloud calls made in between) on addresses that were bound in `before`.
func Touches(before, after map[string]*networkv1beta1.NetworkInterface, calls []Call) []Touch {
	var out []Touch
	ids := make([]string, 0, len(before))
	for id := range before {
		ids = append(ids, id)
	}
	sort.Strings(ids)
	for _, id := range ids {
		b := before[id]
		a := after[id]
		for _, fam := range []string{"v4", "v6"} {
			bm, am := b.IPv4, map[string]*networkv1beta1.IP(nil)
			if a != nil {
				am = a.IPv4
			}
			if fam == "v6" {
				bm = b.IPv6
				if a != nil {
					am = a.IPv6
				}
			}
			keys := make([]string, 0, len(bm))
			for k := range bm {
				keys = append(keys, k)
			}
			sort.Strings(keys)
			for _, k := range keys {
				ip := bm[k]
				if ip == nil || ip.PodID == "" {
					continue
				}
				t := Touch{ENI: id, Family: fam, IP: k, PodID: ip.PodID, PodUID: ip.PodUID}
				add := func(what string) { t.What = what; out = append(out, t) }
				switch {
				case a == nil:
					add("interface removed from the record")
				default:
					if wantGone(a.Status) && !wantGone(b.Status) {
						add("interface marked " + a.Status)
					}
					n, ok := am[k]
					switch {
					case !ok || n == nil:
						add("address removed from the record")
					default:
						if n.PodID != ip.PodID {
							add(fmt.Sprintf("unbound (now owner %q)", n.PodID))
						}
						if n.Status == networkv1beta1.IPStatusDeleting && ip.Status != networkv1beta1.IPStatusDeleting {
							add("address marked Deleting")
						}
					}
				}
				for _, c := range calls {
					switch c.Op {
					case "UnAssignV4", "UnAssignV6":
						if c.ENI != id {
							continue
						}
						for _, x := range c.IPs {
							if x == k {
								add(fmt.Sprintf("named in cloud call %s", c))
							}
						}
					case "Detach", "Delete":
						if c.ENI == id {
							add(fmt.Sprintf("its interface named in cloud call %s", c))
						}
					}
				}
			}
		}
	}
	return out
}

// Owner is the harness's ground truth about the pod an address was bound for: the pod
// object (name and UID) that existed when the controller created or took over the
// binding. UID is "" only for bindings that were already in the record, without a
// UID, before the observed history began (taken over from a version that did not
// record UIDs).
type Owner struct{ PodID, UID string }

// TrackOwners updates the ground truth after a pass that turned `before` into `after`
// (both persisted records) while the pod table was `pods`: a binding that is new in
// `after` belongs to the pod object of that name that existed during the pass; a
// binding that continues keeps its owner, and learns the UID once the record carries
// one.
func TrackOwners(owners map[string]Owner, before, after map[string]*networkv1beta1.NetworkInterface, pods map[string]PodView) {
	was := map[string]string{}
	for _, e := range before {
		for _, m := range []map[string]*networkv1beta1.IP{e.IPv4, e.IPv6} {
			for k, ip := range m {
				if ip != nil && ip.PodID != "" {
					was[k] = ip.PodID
				}
			}
		}
	}
	seen := map[string]bool{}
	for _, e := range after {
		for _, m := range []map[string]*networkv1beta1.IP{e.IPv4, e.IPv6} {
			for k, ip := range m {
				if ip == nil || ip.PodID == "" {
					continue
				}
				seen[k] = true
				o, known := owners[k]
				switch {
				case was[k] == ip.PodID && known && o.PodID == ip.PodID:
					if ip.PodUID != "" {
						o.UID = ip.PodUID
						owners[k] = o
					}
				default:
					uid := ip.PodUID
					if p, ok := pods[ip.PodID]; ok && uid == "" {
						uid = p.UID
					}
					owners[k] = Owner{PodID: ip.PodID, UID: uid}
				}
			}
		}
	}
	for k := range owners {
		if !seen[k] {
			delete(owners, k)
		}
	}
}

// WithTruth returns a copy of the record in which a binding that carries no UID gets
// the UID of its ground-truth owner (if the harness knows one): a reclaim is judged
// against the pod that really held the address, not against what the record says.
func WithTruth(rec map[string]*networkv1beta1.NetworkInterface, owners map[string]Owner) map[string]*networkv1beta1.NetworkInterface {
	out := CopyENIs(rec)
	for _, e := range out {
		for _, m := range []map[string]*networkv1beta1.IP{e.IPv4, e.IPv6} {
			for k, ip := range m {
				if ip == nil || ip.PodID == "" || ip.PodUID != "" {
					continue
				}
				if o, ok := owners[k]; ok && o.PodID == ip.PodID {
					ip.PodUID = o.UID
				}
			}
		}
	}
	return out
}

// SeedOwners is the ground truth of a record that exists before the history begins.
func SeedOwners(rec map[string]*networkv1beta1.NetworkInterface) map[string]Owner {
	owners := map[string]Owner{}
	for _, e := range rec {
		for _, m := range []map[string]*networkv1beta1.IP{e.IPv4, e.IPv6} {
			for k, ip := range m {
				if ip != nil && ip.PodID != "" {
					owners[k] = Owner{PodID: ip.PodID, UID: ip.PodUID}
				}
			}
		}
	}
	return owners
}

// CopyENIs deep-copies a record.
func CopyENIs(in map[string]*networkv1beta1.NetworkInterface) map[string]*networkv1beta1.NetworkInterface {
	out := make(map[string]*networkv1beta1.NetworkInterface, len(in))
	for k, v := range in {
		out[k] = v.DeepCopy()
	}
	return out
}

// Load inserts an interface with given addresses (first v4 = primary), attached to the
// instance. Not logged.
func (c *Cloud) Load(e ENI) {
	c.mu.Lock()
	defer c.mu.Unlock()
	cp := e
	cp.V4 = append([]string(nil), e.V4...)
	cp.V6 = append([]string(nil), e.V6...)
	c.enis[cp.ID] = &cp
}
