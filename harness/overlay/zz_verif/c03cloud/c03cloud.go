// Package c03cloud is the minimal stateful cloud stub of the C03 harnesses (function
// level in pkg/controller/multi-ip/node and the closed loop in daemon). It implements
// the controller-level interface (register.Interface: ENI "V2" calls + VPC) over an
// in-memory region with one instance and one vSwitch, keeps a call log and applies a
// fault plan to mutating calls. Addresses come from a monotone counter, so an address
// value is never issued twice. There is no out-of-band drift (excluded from C03).
package c03cloud

import (
	"context"
	"errors"
	"fmt"
	"sort"
	"sync"

	"github.com/aliyun/alibaba-cloud-sdk-go/services/eflo"
	"github.com/aliyun/alibaba-cloud-sdk-go/services/vpc"
	"k8s.io/apimachinery/pkg/util/wait"

	aliyunClient "github.com/AliyunContainerService/terway/pkg/aliyun/client"
	apiErr "github.com/AliyunContainerService/terway/pkg/aliyun/client/errors"
)

const (
	V4CIDR = "10.0.0.0/16"
	V6CIDR = "fd00:c03::/64"
)

// Call is one entry of the call log.
type Call struct {
	Seq int      `json:"seq"`
	Op  string   `json:"op"`
	ENI string   `json:"eni,omitempty"`
	IPs []string `json:"ips,omitempty"`
	Err string   `json:"err,omitempty"`
}

func (c Call) String() string {
	return fmt.Sprintf("#%d %s eni=%s ips=%v err=%q", c.Seq, c.Op, c.ENI, c.IPs, c.Err)
}

// Mutating reports whether the call changes (or tries to change) cloud state.
func (c Call) Mutating() bool {
	switch c.Op {
	case "Describe", "WaitFor", "DescribeVSwitch":
		return false
	}
	return true
}

// ENI is the stub's record of an interface.
type ENI struct {
	ID, MAC, Type, Mode, Status, Instance, Primary string
	V4, V6                                         []string
}

// Fault kinds of the plan.
const (
	FaultNone   = 0
	FaultBefore = 1 // error, no effect
	FaultAfter  = 2 // effect applied, error returned
)

var ErrInjected = errors.New("c03cloud: injected failure")

// Cloud is the stub. The embedded nil interfaces make it satisfy the wide controller
// interface; only the methods the multi-ip node controller calls are implemented.
type Cloud struct {
	aliyunClient.ECS

	mu       sync.Mutex
	Instance string
	NoMAC    bool // interfaces are created without a MAC address
	// EFLO (LingJun node): interfaces are created attached, addresses carry a name and a
	// status of their own ("Available" unless a transitional status was installed)
	EFLO     bool
	ipStatus map[string]*ipDrift
	VSwitch  string
	Zone     string
	enis     map[string]*ENI
	nextENI  int
	nextIP   int
	seq      int
	log      []Call
	faults   []int
	opFaults map[string]int      // one-shot fault for the next call of an operation
	replays  map[string][]string // "<op>/<eni>/<count>" -> answer of an assign whose response was lost
}

func New(instance, vsw, zone string) *Cloud {
	return &Cloud{Instance: instance, VSwitch: vsw, Zone: zone, enis: map[string]*ENI{}}
}

// SetFaults installs the plan for the next mutating calls (one entry per call).
func (c *Cloud) SetFaults(plan []int) {
	c.mu.Lock()
	defer c.mu.Unlock()
	c.faults = append([]int(nil), plan...)
}

// TakeLog returns and clears the call log.
func (c *Cloud) TakeLog() []Call {
	c.mu.Lock()
	defer c.mu.Unlock()
	l := c.log
	c.log = nil
	return l
}

// Snapshot returns a deep copy of the interfaces, sorted by id.
func (c *Cloud) Snapshot() []ENI {
	c.mu.Lock()
	defer c.mu.Unlock()
	var out []ENI
	for _, e := range c.enis {
		cp := *e
		cp.V4 = append([]string(nil), e.V4...)
		cp.V6 = append([]string(nil), e.V6...)
		out = append(out, cp)
	}
	sort.Slice(out, func(i, j int) bool { return out[i].ID < out[j].ID })
	return out
}

// Preload adds an attached interface with the given number of addresses (first v4 is
// primary) and returns it. Not logged, not subject to faults.
func (c *Cloud) Preload(typ, mode string, nv4, nv6 int) ENI {
	c.mu.Lock()
	defer c.mu.Unlock()
	e := c.newENILocked(typ, mode, nv4, nv6)
	e.Status = aliyunClient.ENIStatusInUse
	e.Instance = c.Instance
	return *e
}

func (c *Cloud) newENILocked(typ, mode string, nv4, nv6 int) *ENI {
	c.nextENI++
	e := &ENI{
		ID:     fmt.Sprintf("eni-%03d", c.nextENI),
		MAC:    fmt.Sprintf("02:c0:03:00:00:%02x", c.nextENI&0xff),
		Type:   typ,
		Mode:   mode,
		Status: aliyunClient.ENIStatusAvailable,
	}
	if nv4 < 1 {
		nv4 = 1
	}
	for i := 0; i < nv4; i++ {
		e.V4 = append(e.V4, c.newV4Locked())
	}
	e.Primary = e.V4[0]
	for i := 0; i < nv6; i++ {
		e.V6 = append(e.V6, c.newV6Locked())
	}
	if c.NoMAC {
		e.MAC = ""
	}
	c.enis[e.ID] = e
	return e
}

func (c *Cloud) newV4Locked() string {
	c.nextIP++
	return fmt.Sprintf("10.0.%d.%d", 1+c.nextIP/250, 1+c.nextIP%250)
}

func (c *Cloud) newV6Locked() string {
	c.nextIP++
	return fmt.Sprintf("fd00:c03::%x", 0x100+c.nextIP)
}

// begin logs a call and consumes one fault entry if the call mutates.
func (c *Cloud) beginLocked(op, eni string, ips []string) (*Call, int) {
	c.seq++
	c.log = append(c.log, Call{Seq: c.seq, Op: op, ENI: eni, IPs: append([]string(nil), ips...)})
	call := &c.log[len(c.log)-1]
	f := FaultNone
	if k, ok := c.opFaults[op]; ok {
		f = k
		delete(c.opFaults, op)
	} else if call.Mutating() && len(c.faults) > 0 {
		f = c.faults[0]
		c.faults = c.faults[1:]
	}
	if f == FaultBefore {
		call.Err = "before"
	} else if f == FaultAfter {
		call.Err = "after"
	}
	return call, f
}

type ipDrift struct {
	status string
	syncs  int
}

// SetIPStatus makes the cloud report a transitional status for an existing address in
// the next `syncs` listings of the instance's interfaces (EFLO only). The address
// itself stays where it is.
func (c *Cloud) SetIPStatus(ip, status string, syncs int) {
	c.mu.Lock()
	defer c.mu.Unlock()
	if c.ipStatus == nil {
		c.ipStatus = map[string]*ipDrift{}
	}
	c.ipStatus[ip] = &ipDrift{status: status, syncs: syncs}
}

func (c *Cloud) ipSetLocked(ip string, primary bool) aliyunClient.IPSet {
	out := aliyunClient.IPSet{IPAddress: ip, Primary: primary}
	if c.EFLO && !primary {
		out.IPName = "ipn-" + ip
		out.IPStatus = aliyunClient.LENIIPStatusAvailable
		if d, ok := c.ipStatus[ip]; ok {
			out.IPStatus = d.status
		}
	}
	return out
}

func (c *Cloud) toAPI(e *ENI) *aliyunClient.NetworkInterface {
	ni := &aliyunClient.NetworkInterface{
		Status:                      e.Status,
		MacAddress:                  e.MAC,
		NetworkInterfaceID:          e.ID,
		VSwitchID:                   c.VSwitch,
		PrivateIPAddress:            e.Primary,
		ZoneID:                      c.Zone,
		SecurityGroupIDs:            []string{"sg-1"},
		Type:                        e.Type,
		InstanceID:                  e.Instance,
		NetworkInterfaceTrafficMode: e.Mode,
	}
	for _, ip := range e.V4 {
		ni.PrivateIPSets = append(ni.PrivateIPSets, c.ipSetLocked(ip, ip == e.Primary))
	}
	for _, ip := range e.V6 {
		ni.IPv6Set = append(ni.IPv6Set, c.ipSetLocked(ip, false))
	}
	return ni
}

// ---- VPC / EFLO

func (c *Cloud) DescribeVSwitchByID(ctx context.Context, vSwitchID string) (*vpc.VSwitch, error) {
	c.mu.Lock()
	defer c.mu.Unlock()
	c.beginLocked("DescribeVSwitch", "", nil)
	return &vpc.VSwitch{
		VSwitchId:               vSwitchID,
		ZoneId:                  c.Zone,
		AvailableIpAddressCount: 10000,
		CidrBlock:               V4CIDR,
		Ipv6CidrBlock:           V6CIDR,
	}, nil
}

func (c *Cloud) GetNodeInfoForPod(ctx context.Context, nodeID string) (*eflo.Content, error) {
	return nil, errors.New("c03cloud: not an eflo node")
}

// ---- ENI (V2)

func (c *Cloud) CreateNetworkInterfaceV2(ctx context.Context, opts ...aliyunClient.CreateNetworkInterfaceOption) (*aliyunClient.NetworkInterface, error) {
	o := &aliyunClient.CreateNetworkInterfaceOptions{}
	for _, opt := range opts {
		opt.ApplyCreateNetworkInterface(o)
	}
	c.mu.Lock()
	defer c.mu.Unlock()
	call, f := c.beginLocked("Create", "", nil)
	if f == FaultBefore {
		return nil, ErrInjected
	}
	typ, mode := aliyunClient.ENITypeSecondary, aliyunClient.ENITrafficModeStandard
	nv4, nv6 := 1, 0
	if n := o.NetworkInterfaceOptions; n != nil {
		if n.Trunk {
			typ = aliyunClient.ENITypeTrunk
		}
		if n.ERDMA {
			mode = aliyunClient.ENITrafficModeRDMA
		}
		if n.IPCount > 1 {
			nv4 = n.IPCount
		}
		nv6 = n.IPv6Count
	}
	e := c.newENILocked(typ, mode, nv4, nv6)
	if c.EFLO {
		// a LingJun interface is created on its node, there is no attach call
		e.Status = aliyunClient.ENIStatusInUse
		e.Instance = c.Instance
	}
	call.ENI = e.ID
	call.IPs = append(append([]string(nil), e.V4...), e.V6...)
	if f == FaultAfter {
		// the interface exists but the caller never learns its id: a leak the C03
		// history does not care about (C08 does); remove it again to keep the
		// region tidy
		delete(c.enis, e.ID)
		return nil, ErrInjected
	}
	return c.toAPI(e), nil
}

func (c *Cloud) DescribeNetworkInterfaceV2(ctx context.Context, opts ...aliyunClient.DescribeNetworkInterfaceOption) ([]*aliyunClient.NetworkInterface, error) {
	o := &aliyunClient.DescribeNetworkInterfaceOptions{}
	for _, opt := range opts {
		opt.ApplyTo(o)
	}
	c.mu.Lock()
	defer c.mu.Unlock()
	c.beginLocked("Describe", "", nil)
	var ids []string
	for id := range c.enis {
		ids = append(ids, id)
	}
	sort.Strings(ids)
	var out []*aliyunClient.NetworkInterface
	for _, id := range ids {
		e := c.enis[id]
		if o.InstanceID != nil && *o.InstanceID != "" && e.Instance != *o.InstanceID {
			continue
		}
		if o.NetworkInterfaceIDs != nil && len(*o.NetworkInterfaceIDs) > 0 {
			found := false
			for _, want := range *o.NetworkInterfaceIDs {
				if want == id {
					found = true
				}
			}
			if !found {
				continue
			}
		}
		if o.Status != nil && *o.Status != "" && e.Status != *o.Status {
			continue
		}
		out = append(out, c.toAPI(e))
	}
	if o.NetworkInterfaceIDs == nil || len(*o.NetworkInterfaceIDs) == 0 {
		// a full listing: transitional address statuses age
		for ip, d := range c.ipStatus {
			d.syncs--
			if d.syncs <= 0 {
				delete(c.ipStatus, ip)
			}
		}
	}
	return out, nil
}

func (c *Cloud) AttachNetworkInterface(ctx context.Context, opts ...aliyunClient.AttachNetworkInterfaceOption) error {
	o := &aliyunClient.AttachNetworkInterfaceOptions{}
	for _, opt := range opts {
		opt.ApplyTo(o)
	}
	id := ""
	if o.NetworkInterfaceID != nil {
		id = *o.NetworkInterfaceID
	}
	c.mu.Lock()
	defer c.mu.Unlock()
	_, f := c.beginLocked("Attach", id, nil)
	if f == FaultBefore {
		return ErrInjected
	}
	e, ok := c.enis[id]
	if !ok {
		return apiErr.ErrNotFound
	}
	e.Status = aliyunClient.ENIStatusInUse
	if o.InstanceID != nil {
		e.Instance = *o.InstanceID
	}
	if f == FaultAfter {
		return ErrInjected
	}
	return nil
}

func (c *Cloud) DetachNetworkInterface(ctx context.Context, eniID, instanceID, trunkENIID string) error {
	c.mu.Lock()
	defer c.mu.Unlock()
	e := c.enis[eniID]
	var ips []string
	if e != nil {
		ips = append(append(ips, e.V4...), e.V6...)
	}
	_, f := c.beginLocked("Detach", eniID, ips)
	if f == FaultBefore {
		return ErrInjected
	}
	if e != nil {
		e.Status = aliyunClient.ENIStatusAvailable
		e.Instance = ""
	}
	if f == FaultAfter {
		return ErrInjected
	}
	return nil
}

func (c *Cloud) DeleteNetworkInterfaceV2(ctx context.Context, eniID string) error {
	c.mu.Lock()
	defer c.mu.Unlock()
	e := c.enis[eniID]
	var ips []string
	if e != nil {
		ips = append(append(ips, e.V4...), e.V6...)
	}
	_, f := c.beginLocked("Delete", eniID, ips)
	if f == FaultBefore {
		return ErrInjected
	}
	delete(c.enis, eniID)
	if f == FaultAfter {
		return ErrInjected
	}
	return nil
}

func (c *Cloud) WaitForNetworkInterfaceV2(ctx context.Context, eniID string, status string, backoff wait.Backoff, ignoreNotExist bool) (*aliyunClient.NetworkInterface, error) {
	c.mu.Lock()
	defer c.mu.Unlock()
	c.beginLocked("WaitFor", eniID, nil)
	e, ok := c.enis[eniID]
	if !ok {
		if ignoreNotExist {
			return nil, fmt.Errorf("wait for %s: %w", eniID, apiErr.ErrNotFound)
		}
		return nil, fmt.Errorf("wait for %s: timed out", eniID)
	}
	if status != "" && e.Status != status {
		return nil, fmt.Errorf("wait for %s to become %s: timed out (is %s)", eniID, status, e.Status)
	}
	return c.toAPI(e), nil
}

func (c *Cloud) AssignPrivateIPAddressV2(ctx context.Context, opts ...aliyunClient.AssignPrivateIPAddressOption) ([]aliyunClient.IPSet, error) {
	o := &aliyunClient.AssignPrivateIPAddressOptions{}
	for _, opt := range opts {
		opt.ApplyAssignPrivateIPAddress(o)
	}
	id, n := "", 0
	if o.NetworkInterfaceOptions != nil {
		id, n = o.NetworkInterfaceOptions.NetworkInterfaceID, o.NetworkInterfaceOptions.IPCount
	}
	c.mu.Lock()
	defer c.mu.Unlock()
	call, f := c.beginLocked("AssignV4", id, nil)
	if f == FaultBefore {
		return nil, ErrInjected
	}
	e, ok := c.enis[id]
	if !ok {
		return nil, apiErr.ErrNotFound
	}
	var out []aliyunClient.IPSet
	if old := c.replayLocked("AssignV4", id, n, e.V4); old != nil && f == FaultNone {
		call.Op = "AssignV4(replay)"
		for _, ip := range old {
			out = append(out, c.ipSetLocked(ip, false))
			call.IPs = append(call.IPs, ip)
		}
		return out, nil
	}
	for i := 0; i < n; i++ {
		ip := c.newV4Locked()
		e.V4 = append(e.V4, ip)
		out = append(out, c.ipSetLocked(ip, false))
		call.IPs = append(call.IPs, ip)
	}
	if f == FaultAfter {
		// assigned remotely, caller does not learn the addresses: they stay in the
		// region until the next full sync picks them up, and the answer is replayed
		// to the next identical request
		c.rememberLocked("AssignV4", id, call.IPs)
		return nil, ErrInjected
	}
	return out, nil
}

func (c *Cloud) AssignIpv6AddressesV2(ctx context.Context, opts ...aliyunClient.AssignIPv6AddressesOption) ([]aliyunClient.IPSet, error) {
	o := &aliyunClient.AssignIPv6AddressesOptions{}
	for _, opt := range opts {
		opt.ApplyAssignIPv6Addresses(o)
	}
	id, n := "", 0
	if o.NetworkInterfaceOptions != nil {
		id, n = o.NetworkInterfaceOptions.NetworkInterfaceID, o.NetworkInterfaceOptions.IPv6Count
	}
	c.mu.Lock()
	defer c.mu.Unlock()
	call, f := c.beginLocked("AssignV6", id, nil)
	if f == FaultBefore {
		return nil, ErrInjected
	}
	e, ok := c.enis[id]
	if !ok {
		return nil, apiErr.ErrNotFound
	}
	var out []aliyunClient.IPSet
	if old := c.replayLocked("AssignV6", id, n, e.V6); old != nil && f == FaultNone {
		call.Op = "AssignV6(replay)"
		for _, ip := range old {
			out = append(out, c.ipSetLocked(ip, false))
			call.IPs = append(call.IPs, ip)
		}
		return out, nil
	}
	for i := 0; i < n; i++ {
		ip := c.newV6Locked()
		e.V6 = append(e.V6, ip)
		out = append(out, c.ipSetLocked(ip, false))
		call.IPs = append(call.IPs, ip)
	}
	if f == FaultAfter {
		c.rememberLocked("AssignV6", id, call.IPs)
		return nil, ErrInjected
	}
	return out, nil
}

func remove(list []string, drop []string) []string {
	var out []string
	for _, x := range list {
		keep := true
		for _, d := range drop {
			if d == x {
				keep = false
			}
		}
		if keep {
			out = append(out, x)
		}
	}
	return out
}

func ipsOf(sets []aliyunClient.IPSet) []string {
	var out []string
	for _, s := range sets {
		out = append(out, s.IPAddress)
	}
	return out
}

func (c *Cloud) UnAssignPrivateIPAddressesV2(ctx context.Context, eniID string, ips []aliyunClient.IPSet) error {
	c.mu.Lock()
	defer c.mu.Unlock()
	_, f := c.beginLocked("UnAssignV4", eniID, ipsOf(ips))
	if f == FaultBefore {
		return ErrInjected
	}
	if e, ok := c.enis[eniID]; ok {
		e.V4 = remove(e.V4, ipsOf(ips))
	}
	if f == FaultAfter {
		return ErrInjected
	}
	return nil
}

func (c *Cloud) UnAssignIpv6AddressesV2(ctx context.Context, eniID string, ips []aliyunClient.IPSet) error {
	c.mu.Lock()
	defer c.mu.Unlock()
	_, f := c.beginLocked("UnAssignV6", eniID, ipsOf(ips))
	if f == FaultBefore {
		return ErrInjected
	}
	if e, ok := c.enis[eniID]; ok {
		e.V6 = remove(e.V6, ipsOf(ips))
	}
	if f == FaultAfter {
		return ErrInjected
	}
	return nil
}

// SetOpFault makes the next call of the named operation (e.g. "AssignV4") fail in the
// given way, whatever the positional plan says.
func (c *Cloud) SetOpFault(op string, kind int) {
	c.mu.Lock()
	defer c.mu.Unlock()
	if c.opFaults == nil {
		c.opFaults = map[string]int{}
	}
	if kind == FaultNone {
		delete(c.opFaults, op)
		return
	}
	c.opFaults[op] = kind
}

// Idempotent replay. The real client derives the ClientToken of an assign request from
// its arguments (interface, count) and puts the token back when the call fails; if the
// cloud had executed the request and only the answer was lost, the next request with
// the same arguments presents the same token and the cloud answers with the result of
// the first execution: the very same addresses. The stub remembers the answer of every
// assign that failed after its effect and replays it once to the next assign with the
// same (operation, interface, count), as long as all those addresses are still on the
// interface.

func replayKey(op, eni string, n int) string { return fmt.Sprintf("%s/%s/%d", op, eni, n) }

func (c *Cloud) rememberLocked(op, eni string, ips []string) {
	if c.replays == nil {
		c.replays = map[string][]string{}
	}
	c.replays[replayKey(op, eni, len(ips))] = append([]string(nil), ips...)
}

func (c *Cloud) replayLocked(op, eni string, n int, have []string) []string {
	k := replayKey(op, eni, n)
	ips, ok := c.replays[k]
	if !ok {
		return nil
	}
	delete(c.replays, k)
	for _, ip := range ips {
		found := false
		for _, h := range have {
			if h == ip {
				found = true
			}
		}
		if !found {
			return nil
		}
	}
	return ips
}

// ArmReplay installs a lost answer directly (function-level harness): the next assign
// of `count` addresses of that family on the interface is answered with ips.
func (c *Cloud) ArmReplay(v6 bool, eni string, ips []string) {
	c.mu.Lock()
	defer c.mu.Unlock()
	op := "AssignV4"
	if v6 {
		op = "AssignV6"
	}
	c.rememberLocked(op, eni, ips)
}
