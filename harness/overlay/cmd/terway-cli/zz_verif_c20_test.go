//go:build linux

package main

// C20 (b): the CNI configuration list generated on a node is valid JSON that keeps the
// input plugin order, uses a virtual type and bandwidth mode from the supported sets,
// contains an eBPF chainer whenever the selected datapath (ipvlan, datapath v2) requires
// one, and never contains one on a kernel without eBPF support.
//
// The real mergeConfigList runs with the real decision helpers (switchDataPathV2,
// allowEBPFNetworkPolicy) plugged in the way processCNIConfig plugs them; what they read
// is set per case: kernel features (feature struct), the AutoDataPathV2 feature gate, the
// recorded node capabilities (/var/run/eni/node_capabilities and nodecap's process-wide
// store, which a fresh terway-cli process loads from that file) and the presence of the
// cilium_net link. The test therefore runs only inside a private mount+net namespace
// (unit option unshare=True); otherwise it is skipped.

import (
	"encoding/json"
	"fmt"
	"os"
	"path/filepath"
	"reflect"
	"runtime"
	"sort"
	"strings"
	"testing"

	"github.com/vishvananda/netlink"
	"golang.org/x/sys/unix"
	utilfeature "k8s.io/apiserver/pkg/util/feature"
	"pgregory.net/rapid"

	terwayfeature "github.com/AliyunContainerService/terway/pkg/feature"
	"github.com/AliyunContainerService/terway/pkg/utils/nodecap"
	"github.com/AliyunContainerService/terway/zz_verif/vt"
)

type c20ChainScenario struct {
	Plugins   []string    `json:"plugins"` // JSON text of each input plugin, input order
	EBPF      bool        `json:"ebpf"`
	EDT       bool        `json:"edt"`
	NetPol    bool        `json:"network_policy"`
	Gate      bool        `json:"gate_auto_datapath_v2"`
	CapFile   bool        `json:"cap_file_present"`
	Caps      [][2]string `json:"caps"`       // recorded capabilities (key, value), file order
	CapsRaw   string      `json:"caps_raw"`   // if non-empty: written verbatim instead (malformed files)
	CiliumNet bool        `json:"cilium_net"` // link cilium_net exists
}

const c20IDKey = "c20id"

// ---------------------------------------------------------------- generator

var (
	c20VTypes = []string{"veth", "Veth", "VETH", "", "ipvlan", "IPVlan", "IPVLAN", "datapathv2", "DataPathV2", "DATAPATHV2"}
	c20VBad   = []string{`"ipvlan2"`, `"foo"`, `"vlan"`, `" ipvlan"`, `"veth "`, `"eni"`}
	c20VNonS  = []string{`5`, `null`, `true`, `{"a":1}`, `["ipvlan"]`}
	c20Others = []string{"portmap", "bandwidth", "tuning", "loopback", "Terway", "cilium", "cilium-cni2", "sbr"}
	c20Extras = [][2]string{
		{"capabilities", `{"portMappings":true}`},
		{"externalSetMarkChain", `"KUBE-MARK-MASQ"`},
		{"foo", `"bar"`},
		{"mtu", `1500`},
		{"nested", `{"a":[1,2,{"b":null}],"c":{}}`},
		{"cniVersion", `"0.3.1"`},
		{"name", `"from-input"`},
		{"enable-debug", `false`},
		{"z.dotted.key", `1.5`},
		{"plugins", `[{"type":"terway"}]`},
		{"type2", `"cilium-cni"`},
		{"cilium_enable_hubble", `"true"`},
		{"host_stack_cidrs", `["169.254.20.10/32"]`},
	}
)

func c20Render(members [][2]string) string {
	parts := make([]string, len(members))
	for i, m := range members {
		k, _ := json.Marshal(m[0])
		parts[i] = string(k) + ":" + m[1]
	}
	return "{" + strings.Join(parts, ",") + "}"
}

func c20DrawExtras(t *rapid.T, ms [][2]string) [][2]string {
	n := c20U(t, 4, "nextra")
	perm := rapid.Permutation(c20Extras).Draw(t, "extras")
	return append(ms, perm[:n]...)
}

// c20U draws from [0,n) close to uniformly: rapid's integer generators strongly favour
// small values and the bounds (a third of IntRange(0,99) draws are below 10), which would
// starve the common classes. Shrinks towards 0.
func c20U(t *rapid.T, n int, label string) int {
	bits := 3
	for (1 << bits) < n*8 {
		bits++
	}
	v := 0
	for i := 0; i < bits; i++ {
		if rapid.Bool().Draw(t, label) {
			v |= 1 << i
		}
	}
	return v % n
}

func c20Str(t *rapid.T, pool []string, label string) string {
	return pool[c20U(t, len(pool), label)]
}

func c20JSON(s string) string {
	b, _ := json.Marshal(s)
	return string(b)
}

func genC20Terway(t *rapid.T, id int) string {
	ms := [][2]string{{"type", `"terway"`}, {c20IDKey, fmt.Sprint(id)}}
	switch k := c20U(t, 100, "vtkind"); {
	case k < 12: // absent
	case k < 82:
		ms = append(ms, [2]string{"eniip_virtual_type", c20JSON(c20Str(t, c20VTypes, "vt"))})
	case k < 91:
		ms = append(ms, [2]string{"eniip_virtual_type", c20Str(t, c20VBad, "vtbad")})
	default:
		ms = append(ms, [2]string{"eniip_virtual_type", c20Str(t, c20VNonS, "vtnons")})
	}
	switch k := c20U(t, 100, "npp"); {
	case k < 30: // absent
	case k < 50:
		ms = append(ms, [2]string{"network_policy_provider", `"iptables"`})
	case k < 90:
		ms = append(ms, [2]string{"network_policy_provider", `"ebpf"`})
	case k < 96:
		ms = append(ms, [2]string{"network_policy_provider", c20Str(t, []string{`"EBPF"`, `""`, `"bogus"`}, "nppodd")})
	default:
		ms = append(ms, [2]string{"network_policy_provider", c20Str(t, []string{`7`, `null`, `["ebpf"]`}, "nppnons")})
	}
	if c20U(t, 100, "bw") < 20 {
		ms = append(ms, [2]string{"bandwidth_mode", c20Str(t, []string{`"edt"`, `"tc"`, `"EDT"`, `"bogus"`, `5`, `null`}, "bwv")})
	}
	ms = c20DrawExtras(t, ms)
	// member order is not significant; shuffle so that "type" is not always first
	return c20Render(rapid.Permutation(ms).Draw(t, "morder"))
}

func genC20Cilium(t *rapid.T, id int) string {
	ms := [][2]string{{"type", `"cilium-cni"`}, {c20IDKey, fmt.Sprint(id)}}
	if rapid.Bool().Draw(t, "cdp") {
		ms = append(ms, [2]string{"datapath", c20Str(t, []string{`"ipvlan"`, `"stale"`, `7`}, "cdpv")})
	}
	ms = c20DrawExtras(t, ms)
	return c20Render(ms)
}

func genC20Other(t *rapid.T, id int) string {
	switch k := c20U(t, 100, "okind"); {
	case k < 2: // no usable type
		ms := [][2]string{{c20IDKey, fmt.Sprint(id)}}
		if rapid.Bool().Draw(t, "nstype") {
			ms = append(ms, [2]string{"type", c20Str(t, []string{`5`, `null`, `["terway"]`, `{"type":"terway"}`}, "badtype")})
		}
		return c20Render(c20DrawExtras(t, ms))
	case k < 3: // not an object / not JSON
		return c20Str(t, []string{`[{"type":"portmap"}]`, `5`, `null`, `"terway"`, `{"type":"portmap"`, ``, `{"type":"portmap"}}`}, "notobj")
	}
	ms := [][2]string{{"type", c20JSON(c20Str(t, c20Others, "otype"))}, {c20IDKey, fmt.Sprint(id)}}
	return c20Render(c20DrawExtras(t, ms))
}

func genC20Chain(t *rapid.T) c20ChainScenario {
	s := c20ChainScenario{}
	// roles in input order: o = other, T = terway, C = cilium-cni
	var roles []byte
	nBefore := c20U(t, 3, "before")
	nAfter := c20U(t, vt.Scale(3, 6)+1, "after")
	for i := 0; i < nBefore; i++ {
		roles = append(roles, 'o')
	}
	terway := c20U(t, 100, "terway") < 94
	cilium := c20U(t, 100, "cilium")
	if cilium < 4 {
		roles = append(roles, 'C') // chainer ahead of terway
	}
	if terway {
		roles = append(roles, 'T')
	}
	ciliumAt := -1
	if cilium >= 4 && cilium < 34 {
		ciliumAt = c20U(t, nAfter+1, "ciliumAt")
	}
	for i := 0; i <= nAfter; i++ {
		if i == ciliumAt {
			roles = append(roles, 'C')
		}
		if i < nAfter {
			roles = append(roles, 'o')
		}
	}
	if len(roles) == 0 {
		roles = append(roles, 'o')
	}
	for i, r := range roles {
		switch r {
		case 'T':
			s.Plugins = append(s.Plugins, genC20Terway(t, i))
		case 'C':
			s.Plugins = append(s.Plugins, genC20Cilium(t, i))
		default:
			s.Plugins = append(s.Plugins, genC20Other(t, i))
		}
	}

	s.EBPF = c20U(t, 100, "ebpf") < 70
	s.EDT = rapid.Bool().Draw(t, "edt")
	s.NetPol = rapid.Bool().Draw(t, "netpol")
	s.Gate = c20U(t, 100, "gate") < 65
	s.CiliumNet = c20U(t, 100, "ciliumnet") < 35

	s.CapFile = c20U(t, 100, "capfile") < 75
	if s.CapFile {
		if k := c20U(t, 100, "dp"); k < 70 {
			s.Caps = append(s.Caps, [2]string{nodecap.NodeCapabilityDataPath,
				c20Str(t, []string{"veth", "ipvlan", "datapathv2", "datapathv2", "", "IPVlan", "bogus"}, "dpv")})
		}
		if k := c20U(t, 100, "hc"); k < 70 {
			s.Caps = append(s.Caps, [2]string{nodecap.NodeCapabilityHasCiliumChainer,
				c20Str(t, []string{"true", "true", "false", "false", "True", "1", ""}, "hcv")})
		}
		if rapid.Bool().Draw(t, "npcap") {
			s.Caps = append(s.Caps, [2]string{nodecap.NodeCapabilityNetworkPolicyProvider, c20Str(t, []string{"ebpf", "iptables"}, "npv")})
		}
		if c20U(t, 4, "misc") == 0 {
			s.Caps = append(s.Caps, [2]string{nodecap.NodeCapabilityIPv6, "true"})
		}
		s.Caps = rapid.Permutation(s.Caps).Draw(t, "caporder")
		if c20U(t, 100, "capraw") < 2 {
			s.CapsRaw = c20Str(t, []string{"has_cilium_chainer\n", "[unclosed\nx = y\n", "= novalue\n"}, "caprawv")
		}
	}
	return s
}

// ---------------------------------------------------------------- environment

// c20Isolated: /var/run/eni is a dedicated tmpfs and the network namespace holds
// nothing but loopback (and links a previous case made) - i.e. the process was started
// by the driver under unshare -n -m.
func c20Isolated() bool {
	mi, err := os.ReadFile("/proc/self/mountinfo")
	if err != nil {
		return false
	}
	dir, err := filepath.EvalSymlinks("/var/run/eni")
	if err != nil {
		return false
	}
	tmpfs := false
	for _, line := range strings.Split(string(mi), "\n") {
		f := strings.Fields(line)
		if len(f) >= 9 && f[4] == dir && strings.Contains(line, " - tmpfs ") {
			tmpfs = true
		}
	}
	links, err := netlink.LinkList()
	if err != nil || !tmpfs {
		return false
	}
	for _, l := range links {
		switch l.Attrs().Name {
		case "lo", "cilium_net", "cilium_host":
		default:
			return false
		}
	}
	return true
}

// Presence of the cilium_net link is switched by moving the (locked) test thread
// between two network namespaces: the private one the driver started the binary in
// (no cilium_net) and a second one created here that holds a veth named cilium_net.
// Creating/deleting the link per case would cost ~10 ms of kernel RCU waits each.
// netlink's package handle opens its socket per request on the calling thread, and
// rapid runs the property on the calling goroutine, so the code under test sees the
// namespace chosen for the case.
var c20NS struct {
	ready         bool
	with, without int
}

func c20SetupNetNS() error {
	if c20NS.ready {
		return nil
	}
	runtime.LockOSThread() // stays locked: the thread's namespace is no longer the process default
	const self = "/proc/thread-self/ns/net"
	without, err := unix.Open(self, unix.O_RDONLY|unix.O_CLOEXEC, 0)
	if err != nil {
		return err
	}
	if l, err := netlink.LinkByName("cilium_net"); err == nil {
		if err := netlink.LinkDel(l); err != nil {
			return err
		}
	}
	if err := unix.Unshare(unix.CLONE_NEWNET); err != nil {
		return err
	}
	with, err := unix.Open(self, unix.O_RDONLY|unix.O_CLOEXEC, 0)
	if err != nil {
		return err
	}
	if err := netlink.LinkAdd(&netlink.Veth{LinkAttrs: netlink.LinkAttrs{Name: "cilium_net"}, PeerName: "cilium_host"}); err != nil {
		return err
	}
	c20NS.with, c20NS.without, c20NS.ready = with, without, true
	return nil
}

func c20SetCiliumNet(c *vt.Ctx, want bool) {
	if err := c20SetupNetNS(); err != nil {
		c.Inconclusive("network namespaces: " + err.Error())
	}
	fd := c20NS.without
	if want {
		fd = c20NS.with
	}
	if err := unix.Setns(fd, unix.CLONE_NEWNET); err != nil {
		c.Inconclusive("setns: " + err.Error())
	}
	_, err := netlink.LinkByName("cilium_net")
	if (err == nil) != want {
		c.Inconclusive(fmt.Sprintf("link cilium_net present=%v, wanted %v (%v)", err == nil, want, err))
	}
}

func c20SetCaps(c *vt.Ctx, s c20ChainScenario) {
	const path = "/var/run/eni/node_capabilities"
	recordedDatapath := ""
	if !s.CapFile {
		if err := os.Remove(path); err != nil && !os.IsNotExist(err) {
			c.Inconclusive("remove capabilities file: " + err.Error())
		}
	} else {
		var sb strings.Builder
		if s.CapsRaw != "" {
			sb.WriteString(s.CapsRaw)
		}
		for _, kv := range s.Caps {
			fmt.Fprintf(&sb, "%s = %s\n", kv[0], kv[1])
			if kv[0] == nodecap.NodeCapabilityDataPath {
				recordedDatapath = kv[1]
			}
		}
		if err := os.WriteFile(path, []byte(sb.String()), 0o644); err != nil {
			c.Inconclusive("write capabilities file: " + err.Error())
		}
	}
	// nodecap's process-wide store is what a fresh terway-cli process loads from the file
	// in init(); a malformed file makes that process panic before anything is generated,
	// so only the well-formed content is mirrored.
	nodecap.SetNodeCapabilities(nodecap.NodeCapabilityDataPath, recordedDatapath)
}

// c20Quiet runs f with os.Stdout pointing at /dev/null (the code under test prints its
// decisions).
func c20Quiet(f func()) {
	old := os.Stdout
	if null, err := os.OpenFile(os.DevNull, os.O_WRONLY, 0); err == nil {
		os.Stdout = null
		defer func() { os.Stdout = old; _ = null.Close() }()
	}
	f()
}

// ---------------------------------------------------------------- execution + oracle

type c20Plugin struct {
	obj  map[string]any
	typ  string
	id   int
	isID bool
}

func c20Decode(text string) (map[string]any, bool) {
	var v any
	if err := json.Unmarshal([]byte(text), &v); err != nil {
		return nil, false
	}
	m, ok := v.(map[string]any)
	return m, ok
}

func c20Without(m map[string]any, keys ...string) map[string]any {
	out := map[string]any{}
	for k, v := range m {
		out[k] = v
	}
	for _, k := range keys {
		delete(out, k)
	}
	return out
}

func c20Keys(m map[string]any) []string {
	out := make([]string, 0, len(m))
	for k := range m {
		out = append(out, k)
	}
	sort.Strings(out)
	return out
}

func runC20Chain(c *vt.Ctx, s c20ChainScenario) {
	c20SetCiliumNet(c, s.CiliumNet)
	c20SetCaps(c, s)
	if err := utilfeature.DefaultMutableFeatureGate.SetFromMap(map[string]bool{string(terwayfeature.AutoDataPathV2): s.Gate}); err != nil {
		c.Inconclusive("feature gate: " + err.Error())
	}
	_switchDataPathV2 = switchDataPathV2
	_checkKernelVersion = checkKernelVersion

	configs := make([][]byte, len(s.Plugins))
	for i, p := range s.Plugins {
		configs[i] = []byte(p)
	}
	f := &feature{EBPF: s.EBPF, EDT: s.EDT, EnableNetworkPolicy: s.NetPol}

	var out string
	var err error
	c20Quiet(func() { out, err = mergeConfigList(configs, f) })
	c.Trace("mergeConfigList err=%v out=%s", err, out)
	c20JudgeChain(c, s, out, err)
}

// c20Reporter is what the oracle needs from its driver: *vt.Ctx under rapid, a thin
// adapter over *testing.T under the native fuzzer (zz_verif_c20_fuzz_test.go).
type c20Reporter interface {
	Fatalf(format string, args ...any)
	Logf(format string, args ...any)
	Label(l string)
	Labelf(format string, args ...any)
	NonTrivial()
}

// c20JudgeChain judges what mergeConfigList answered (out, err) for the plugin list and
// kernel features of s against the clauses of the statement.
func c20JudgeChain(c c20Reporter, s c20ChainScenario, out string, err error) {

	// classification of the input
	type inPlugin struct {
		obj map[string]any
		typ string
	}
	var ins []inPlugin
	wellFormed := true
	var terwayIn map[string]any
	ciliumBeforeTerway, sawTerway := false, false
	for _, p := range s.Plugins {
		obj, ok := c20Decode(p)
		typ, okT := obj["type"].(string)
		if !ok || !okT {
			wellFormed = false
		}
		ins = append(ins, inPlugin{obj, typ})
		if typ == pluginTypeTerway {
			terwayIn, sawTerway = obj, true
		}
		if typ == pluginTypeCilium && !sawTerway {
			ciliumBeforeTerway = true
		}
	}
	if s.EBPF {
		c.Label("kernel:ebpf")
	} else {
		c.Label("kernel:no-ebpf")
	}

	reqType, reqIsStr := "", false
	provider := NetworkPolicyProviderIpt
	if terwayIn != nil {
		if v, ok := terwayIn["eniip_virtual_type"].(string); ok {
			reqType, reqIsStr = strings.ToLower(v), true
		}
		if v, ok := terwayIn["network_policy_provider"].(string); ok {
			provider = v
		}
		switch {
		case !reqIsStr:
			c.Label("request:absent-or-non-string")
		case reqType == "" || reqType == dataPathVeth || reqType == dataPathIPvlan || reqType == dataPathV2:
			c.Label("request:" + reqType)
		default:
			c.Label("request:invalid")
		}
	} else {
		c.Label("request:no-terway-entry")
	}

	if err != nil {
		_, hasProvider := terwayIn["network_policy_provider"]
		_, providerIsStr := terwayIn["network_policy_provider"].(string)
		switch {
		case !wellFormed:
			c.Label("rejected:malformed-plugin")
		case hasProvider && !providerIsStr:
			c.Label("rejected:provider-not-a-string")
		case terwayIn != nil && s.EBPF && reqIsStr && reqType != "" && reqType != dataPathVeth && reqType != dataPathIPvlan && reqType != dataPathV2:
			c.Label("rejected:invalid-virtual-type")
		case s.CapsRaw != "":
			c.Label("rejected:capabilities-file")
		default:
			c.Label("rejected:unclassified")
			c.Logf("unclassified rejection: %v", err)
		}
		return
	}
	c.Label("generated")

	// (1) valid JSON
	var top map[string]any
	if uerr := json.Unmarshal([]byte(out), &top); uerr != nil {
		c.Fatalf("generated configuration list is not valid JSON (%v): %q", uerr, out)
	}
	var outs []c20Plugin
	if raw, has := top["plugins"]; has {
		list, ok := raw.([]any)
		if !ok {
			c.Fatalf("\"plugins\" is not an array: %s", out)
		}
		for i, e := range list {
			obj, ok := e.(map[string]any)
			if !ok {
				c.Fatalf("plugins[%d] is not an object: %s", i, out)
			}
			p := c20Plugin{obj: obj}
			p.typ, ok = obj["type"].(string)
			if !ok {
				c.Fatalf("plugins[%d] has no string \"type\": %s", i, out)
			}
			if idv, ok := obj[c20IDKey].(float64); ok {
				p.id, p.isID = int(idv), true
			}
			outs = append(outs, p)
		}
	}

	// (2) input plugin order kept. Input cilium-cni entries are dropped on a kernel
	// without eBPF; everything else must come out, in input order, unaltered except for
	// the keys the generator manages.
	var wantIDs, gotIDs []int
	for i, in := range ins {
		if in.typ == pluginTypeCilium && !s.EBPF {
			continue
		}
		wantIDs = append(wantIDs, i)
	}
	extraChainers := 0
	for i, p := range outs {
		if p.isID {
			gotIDs = append(gotIDs, p.id)
			continue
		}
		if p.typ != pluginTypeCilium {
			c.Fatalf("plugins[%d] (type %q) does not come from the input: %s", i, p.typ, out)
		}
		extraChainers++
	}
	if !reflect.DeepEqual(wantIDs, gotIDs) {
		c.Fatalf("input plugin order not kept: input ids %v, output ids %v\n input=%q\n output=%s", wantIDs, gotIDs, s.Plugins, out)
	}
	if extraChainers > 1 {
		c.Fatalf("%d chainers appended: %s", extraChainers, out)
	}
	for _, p := range outs {
		if !p.isID {
			continue
		}
		in := ins[p.id]
		managed := []string{"cniVersion", "name"}
		switch in.typ {
		case pluginTypeTerway:
			managed = append(managed, "eniip_virtual_type", "bandwidth_mode")
		case pluginTypeCilium:
			managed = append(managed, "datapath")
		}
		wantObj, gotObj := c20Without(in.obj, managed...), c20Without(p.obj, managed...)
		if !reflect.DeepEqual(wantObj, gotObj) {
			c.Fatalf("input plugin %d (type %q) was altered: input keys %v -> output keys %v\n input=%s\n output=%s", p.id, in.typ, c20Keys(wantObj), c20Keys(gotObj), s.Plugins[p.id], out)
		}
	}

	hasChainer := false
	terwayPos, chainerPos := -1, -1
	var terwayOut map[string]any
	for i, p := range outs {
		if p.typ == pluginTypeCilium {
			hasChainer = true
			if chainerPos < 0 {
				chainerPos = i
			}
		}
		if p.typ == pluginTypeTerway {
			terwayOut, terwayPos = p.obj, i
		}
	}

	// (5) never a chainer on a kernel without eBPF support
	if !s.EBPF && hasChainer {
		c.Fatalf("kernel without eBPF support but the list contains a %s entry: %s", pluginTypeCilium, out)
	}

	selected := ""
	if terwayOut != nil {
		// (3) virtual type and bandwidth mode from the supported sets
		vtRaw, hasVT := terwayOut["eniip_virtual_type"]
		bwRaw, hasBW := terwayOut["bandwidth_mode"]
		if s.EBPF {
			v, ok := vtRaw.(string)
			if !ok || (v != dataPathVeth && v != dataPathIPvlan && v != dataPathV2) {
				c.Fatalf("eniip_virtual_type %v (present=%v) is not one of veth/ipvlan/datapathv2: %s", vtRaw, hasVT, out)
			}
			selected = v
			bw, ok := bwRaw.(string)
			if !ok || (bw != "edt" && bw != "tc") {
				c.Fatalf("bandwidth_mode %v (present=%v) is not one of edt/tc: %s", bwRaw, hasBW, out)
			}
			if bw == "edt" && !s.EDT {
				c.Fatalf("bandwidth_mode edt on a kernel without EDT support: %s", out)
			}
			// "supported" is per generated chain: EDT shaping is carried out by the eBPF datapath
			// (ipvlan / datapath v2 with the chainer); with plain veth the plugin shapes with tc
			// qdiscs itself and installs nothing in edt mode (PolicyRoute.Setup skips SetupTC), so
			// edt on a veth chain means the pod's bandwidth limits are silently not enforced
			if bw == "edt" && v == dataPathVeth {
				c.Fatalf("bandwidth_mode edt with eniip_virtual_type veth (no eBPF datapath to run the EDT shaper; supported on such a chain: tc): %s", out)
			}
			c.Label("selected:" + selected + "/" + bw)
		} else {
			// without eBPF only veth (the plugin's default) and tc (its default) are supported
			if hasVT && vtRaw != dataPathVeth {
				c.Fatalf("kernel without eBPF support but eniip_virtual_type %v is emitted: %s", vtRaw, out)
			}
			if hasBW && bwRaw != "tc" {
				if c20KnownBandwidthPassthrough(terwayIn, bwRaw) {
					c.Label("known:C20-noebpf-bandwidth-passthrough")
				} else {
					c.Fatalf("kernel without eBPF/EDT support but bandwidth_mode %v is emitted (supported: tc): input terway entry %v\n output=%s", bwRaw, terwayIn, out)
				}
			}
			c.Label("selected:no-ebpf-default")
		}
	}

	// (4) chainer present whenever the selected datapath requires one
	if selected == dataPathIPvlan || selected == dataPathV2 {
		if !hasChainer {
			c.Fatalf("selected datapath %s requires the eBPF chainer but the list has no %s entry: %s", selected, pluginTypeCilium, out)
		}
		if extraChainers == 1 {
			c.Label("chainer:appended")
		} else {
			c.Label("chainer:from-input")
		}
		if chainerPos < terwayPos {
			c.Label("chainer:ahead-of-terway")
		}
	} else if hasChainer {
		c.Label("chainer:kept-with-veth")
	}
	if ciliumBeforeTerway {
		c.Label("input:cilium-ahead-of-terway")
	}

	// non-trivial: the datapath decision consults the recorded capabilities
	if s.EBPF && terwayIn != nil {
		vethReq := !reqIsStr || reqType == "" || reqType == dataPathVeth
		switch {
		case vethReq && provider == NetworkPolicyProviderEBPF:
			c.Label("decision:veth+ebpf-provider(has_cilium_chainer record)")
			c.NonTrivial()
			c.Labelf("env:veth+ebpf-provider recorded-chainer=%q -> %s", c20Recorded(s, nodecap.NodeCapabilityHasCiliumChainer), selected)
		case reqType == dataPathIPvlan && s.Gate:
			c.Label("decision:ipvlan+gate(datapath record)")
			c.NonTrivial()
			// evidence that the per-case environment reaches the code under test
			c.Labelf("env:ipvlan+gate recorded-v2=%v cilium_net=%v -> %s", c20Recorded(s, nodecap.NodeCapabilityDataPath) == dataPathV2, s.CiliumNet, selected)
		}
	}
}

// c20Recorded returns the recorded value of a capability ("<none>" if not recorded).
func c20Recorded(s c20ChainScenario, key string) string {
	v := "<none>"
	if s.CapFile {
		for _, kv := range s.Caps {
			if kv[0] == key {
				v = kv[1]
			}
		}
	}
	return v
}

// c20KnownBandwidthPassthrough: finding C20-noebpf-bandwidth-passthrough — on a kernel
// without eBPF the generator leaves a bandwidth_mode found in the input terway entry
// untouched. Only consulted while the finding is listed as open.
func c20KnownBandwidthPassthrough(terwayIn map[string]any, emitted any) bool {
	if !vt.Known("C20-noebpf-bandwidth-passthrough") || terwayIn == nil {
		return false
	}
	in, has := terwayIn["bandwidth_mode"]
	return has && reflect.DeepEqual(in, emitted)
}

func TestVerifC20Chain(t *testing.T) {
	if !c20Isolated() {
		t.Skip("C20 chain check needs a private mount+net namespace (unit option unshare=True)")
	}
	if err := os.MkdirAll("/var/run/eni", 0o755); err != nil {
		t.Skipf("no /var/run/eni: %v", err)
	}
	vt.Run(t, genC20Chain, runC20Chain)
}

// TestVerifC20KnownWitnessBandwidthPassthrough is the deterministic witness of finding
// C20-noebpf-bandwidth-passthrough; it prints the KNOWN-FINDING line while the finding is
// listed as open and the witness still fails.
func TestVerifC20KnownWitnessBandwidthPassthrough(t *testing.T) {
	if !vt.Known("C20-noebpf-bandwidth-passthrough") {
		t.Skip("finding not listed as open")
	}
	_switchDataPathV2 = func() bool { return false }
	var out string
	var err error
	c20Quiet(func() {
		out, err = mergeConfigList([][]byte{[]byte(`{"type":"terway","bandwidth_mode":"bogus"}`)}, &feature{EBPF: false})
	})
	if err == nil && strings.Contains(out, `"bogus"`) {
		vt.KnownFindingLine("C20", `mergeConfigList on a kernel without eBPF emits the input's bandwidth_mode unchanged ({"type":"terway","bandwidth_mode":"bogus"} -> bandwidth_mode bogus; likewise edt, which needs eBPF; supported there: tc)`)
	}
}
