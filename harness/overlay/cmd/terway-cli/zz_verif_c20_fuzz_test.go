//go:build linux

package main

import (
	"encoding/json"
	"testing"
)

// FuzzVerifC20Chain: the structural oracle of TestVerifC20Chain under Go's coverage-guided
// fuzzer (thorough tier) over (input conf/conflist bytes, feature bits).
//
// The input bytes are split into plugins the way processInput does (members of
// "plugins" if present, else the document itself); every plugin that is a JSON object is
// tagged with its input position so that the order clause can be judged. Unlike the rapid
// test nothing in the environment is written: the migration switch is a fuzzed bit plugged
// into _switchDataPathV2 (as the package's own tests do) and allowEBPFNetworkPolicy reads
// whatever capabilities file / link table the process sees - the oracle does not predict
// which datapath is chosen, only that the generated list is coherent. The 16 fuzz workers
// share one namespace, so per-case capability files are left to the rapid test.

type c20FuzzReporter struct{ t *testing.T }

func (r c20FuzzReporter) Fatalf(f string, a ...any) { r.t.Fatalf(f, a...) }
func (r c20FuzzReporter) Logf(string, ...any)       {}
func (r c20FuzzReporter) Label(string)              {}
func (r c20FuzzReporter) Labelf(string, ...any)     {}
func (r c20FuzzReporter) NonTrivial()               {}

// c20Split mirrors the splitting step of processInput with encoding/json.
func c20Split(input []byte) []string {
	var doc struct {
		Plugins *[]json.RawMessage `json:"plugins"`
	}
	var raws []json.RawMessage
	if err := json.Unmarshal(input, &doc); err == nil && doc.Plugins != nil {
		raws = *doc.Plugins
	} else {
		raws = []json.RawMessage{input}
	}
	out := make([]string, len(raws))
	for i, r := range raws {
		out[i] = string(r)
		var obj map[string]json.RawMessage
		if json.Unmarshal(r, &obj) == nil && obj != nil {
			obj[c20IDKey] = json.RawMessage(jsonInt(i))
			if b, err := json.Marshal(obj); err == nil {
				out[i] = string(b)
			}
		}
	}
	return out
}

func jsonInt(i int) string { b, _ := json.Marshal(i); return string(b) }

func FuzzVerifC20Chain(f *testing.F) {
	// inputs of the package's own tests and of charts/terway/templates/terwayd/configmap.yaml
	portmap := `{"type":"portmap","capabilities":{"portMappings":true},"externalSetMarkChain":"KUBE-MARK-MASQ"}`
	seeds := []string{
		`{"type":"terway","foo":"bar"}`,
		`{"plugins":[{"type":"terway","foo":"bar"},` + portmap + `]}`,
		`{"plugins":[{"type":"terway","foo":"bar","eniip_virtual_type":"ipvlan"},` + portmap + `]}`,
		`{"plugins":[{"type":"terway","foo":"bar","eniip_virtual_type":"ipvlan"},{"type":"cilium-cni"},` + portmap + `]}`,
		`{"plugins":[{"type":"terway","eniip_virtual_type":"datapathv2"},{"type":"cilium-cni"},` + portmap + `]}`,
		`{"plugins":[{"type":"terway","foo":"bar","network_policy_provider":"ebpf"}]}`,
		`{"cniVersion":"0.4.0","name":"terway-chainer","plugins":[{"type":"terway","capabilities":{"bandwidth":true},"network_policy_provider":"ebpf","eniip_virtual_type":"datapathv2","host_stack_cidrs":["169.254.20.10/32"]},{"type":"cilium-cni","enable-debug":false}]}`,
		`{"cniVersion":"0.4.0","name":"terway","type":"terway","eniip_virtual_type":"IPVlan"}`,
		`{"plugins":[{"type":"cilium-cni","datapath":"stale"},{"type":"terway","eniip_virtual_type":"Veth","bandwidth_mode":"bogus"}]}`,
		`{"plugins":[{"type":"terway","eniip_virtual_type":"ipvlan2"}]}`,
		`{"plugins":[{"type":"terway","eniip_virtual_type":5,"network_policy_provider":null}]}`,
		`{"plugins":[{"type":5},[{"type":"terway"}],null,"terway"]}`,
		`{"plugins":[]}`, `{"plugins":null}`, `{"plugins":{"type":"terway"}}`, `{}`, `[]`, `null`, ``, `{`,
		`{"plugins":[{"type":"terway","type":"cilium-cni"},{"type":"terway","eniip_virtual_type":"ipvlan"}]}`,
	}
	for _, s := range seeds {
		for _, bits := range []uint8{0, 1, 3, 7, 15, 9} {
			f.Add([]byte(s), bits)
		}
	}
	f.Fuzz(func(t *testing.T, conflist []byte, bits uint8) {
		s := c20ChainScenario{
			Plugins: c20Split(conflist),
			EBPF:    bits&1 != 0,
			EDT:     bits&2 != 0,
			NetPol:  bits&4 != 0,
		}
		migrate := bits&8 != 0
		// the statement speaks of "the selected datapath": lists with more than one terway
		// entry have no single one (same domain as the rapid test)
		nTerway := 0
		for _, p := range s.Plugins {
			if obj, ok := c20Decode(p); ok && obj["type"] == pluginTypeTerway {
				nTerway++
			}
		}
		_switchDataPathV2 = func() bool { return migrate }
		_checkKernelVersion = checkKernelVersion
		configs := make([][]byte, len(s.Plugins))
		for i, p := range s.Plugins {
			configs[i] = []byte(p)
		}
		var out string
		var err error
		c20Quiet(func() {
			out, err = mergeConfigList(configs, &feature{EBPF: s.EBPF, EDT: s.EDT, EnableNetworkPolicy: s.NetPol})
		})
		if nTerway > 1 {
			return // executed for panics only
		}
		c20JudgeChain(c20FuzzReporter{t}, s, out, err)
	})
}
