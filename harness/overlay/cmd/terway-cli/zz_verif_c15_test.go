//go:build linux

package main

// C15 — terway-cli never panics on the mounted ConfigMap (10-terway.conf,
// 10-terway.conflist, eni_conf, disable_network_policy): getAllConfig, the plugin split of
// processInput (mirrored: three lines around gabs), mergeConfigList and, on its output,
// storeRuntimeConfig.
//
// SAFETY: storeRuntimeConfig runs `nsenter -t 1 -m … mount bpffs` when the chain holds a
// cilium-cni plugin. The harness therefore decodes mergeConfigList's output itself and
// calls storeRuntimeConfig only when no plugin of that type is present.

import (
	"encoding/json"
	"os"
	"path/filepath"
	"testing"

	"github.com/Jeffail/gabs/v2"

	"github.com/AliyunContainerService/terway/types/daemon"
	g "github.com/AliyunContainerService/terway/zz_verif/c15gen"
	"github.com/AliyunContainerService/terway/zz_verif/vt"
	"pgregory.net/rapid"
)

type vfC15CLIScenario struct {
	Kind      string   `json:"kind"`
	Conf      g.Bytes  `json:"conf"`     // 10-terway.conf
	ConfList  *g.Bytes `json:"conflist"` // 10-terway.conflist (nil: absent)
	ENIConf   g.Bytes  `json:"eni_conf"`
	DisableNP *g.Bytes `json:"disable_network_policy"`
	EBPF      bool     `json:"ebpf"`
	EDT       bool     `json:"edt"`
	SwitchV2  bool     `json:"switch_v2"`
}

func vfC15ValidConfList(t *rapid.T) []byte {
	plugins := []any{}
	order := rapid.IntRange(0, 5).Draw(t, "order")
	terway := g.CNIConf(t)
	cilium := map[string]any{"type": "cilium-cni", "enable-debug": false}
	portmap := map[string]any{"type": "portmap", "capabilities": map[string]any{"portMappings": true}, "externalSetMarkChain": "KUBE-MARK-MASQ"}
	switch order {
	case 0:
		plugins = append(plugins, terway)
	case 1:
		plugins = append(plugins, terway, portmap)
	case 2:
		plugins = append(plugins, terway, cilium)
	case 3:
		plugins = append(plugins, terway, cilium, portmap)
	case 4:
		plugins = append(plugins, cilium, terway)
	default:
		plugins = append(plugins, terway, g.CNIConf(t))
	}
	return g.MustJSON(map[string]any{"cniVersion": "0.4.0", "name": "terway-chainer", "plugins": plugins})
}

func vfC15GenCLI(t *rapid.T) vfC15CLIScenario {
	s := vfC15CLIScenario{Kind: g.Kind(t)}
	s.EBPF = rapid.Bool().Draw(t, "ebpf")
	s.EDT = rapid.Bool().Draw(t, "edt")
	s.SwitchV2 = rapid.Bool().Draw(t, "v2")
	hasList := rapid.Bool().Draw(t, "haslist")
	// the document that is actually merged carries the mutation / raw bytes
	mainKind, otherKind := s.Kind, g.KindValid
	if s.Kind != g.KindValid && rapid.IntRange(0, 5).Draw(t, "other") == 0 {
		mainKind, otherKind = g.KindValid, s.Kind
	}
	single := func(t *rapid.T) []byte { return g.MustJSON(g.CNIConf(t)) }
	if hasList {
		v := g.JSONField(t, mainKind, vfC15ValidConfList, g.CNIConfHostile)
		s.ConfList = &v
		s.Conf = g.Bytes(single(t))
	} else {
		s.Conf = g.JSONField(t, mainKind, single, g.CNIConfHostile)
	}
	s.ENIConf = g.JSONField(t, otherKind, g.ENIConf, g.ENIConfHostile)
	if rapid.Bool().Draw(t, "hasnp") {
		v := g.TextField(t, otherKind, func(t *rapid.T) string {
			return rapid.SampledFrom([]string{"false", "0", "", "true", "1"}).Draw(t, "np")
		}, "", nil)
		s.DisableNP = &v
	}
	return s
}

func vfC15RunCLI(c *vt.Ctx, s vfC15CLIScenario) {
	c.Label("kind:" + s.Kind)
	dir, err := os.MkdirTemp(".", "c15cli")
	if err != nil {
		c.Inconclusive("mkdirtemp")
	}
	defer os.RemoveAll(dir)
	write := func(name string, b []byte) {
		if err := os.WriteFile(filepath.Join(dir, name), b, 0o644); err != nil {
			c.Inconclusive("write")
		}
	}
	write("10-terway.conf", s.Conf)
	if s.ConfList != nil {
		write("10-terway.conflist", *s.ConfList)
		c.Label("with-conflist")
	}
	write("eni_conf", s.ENIConf)
	if s.DisableNP != nil {
		write("disable_network_policy", *s.DisableNP)
	}

	cm, err := getAllConfig(dir)
	if err != nil || cm == nil {
		c.Fatalf("getAllConfig on a complete directory failed: %v", err)
	}
	// getENIConfig + dualStack (mirrored: Unmarshal into daemon.Config, read IPStack)
	cfg := daemon.Config{}
	if json.Unmarshal(cm.eniConfig, &cfg) == nil {
		_ = cfg.IPStack == "dual"
	}

	// processInput (mirrored up to mergeConfigList; kernel / bpftool probes replaced by
	// the scenario's feature flags)
	input := cm.cniConfig
	if cm.cniConfigList != nil {
		input = cm.cniConfigList
	}
	var configs [][]byte
	root, err := gabs.ParseJSON(input)
	if err != nil {
		c.Label("depth0-not-json")
		return
	}
	c.NonTrivial()
	if root.Exists("plugins") {
		for _, cc := range root.Path("plugins").Children() {
			configs = append(configs, cc.Bytes())
		}
	} else {
		configs = append(configs, input)
	}
	_switchDataPathV2 = func() bool { return s.SwitchV2 }
	f := feature{EBPF: s.EBPF, EDT: s.EDT, EnableNetworkPolicy: cm.enableNetworkPolicy}
	out, err := mergeConfigList(configs, &f)
	if err != nil {
		c.Label("depth1-json-rejected")
		return
	}
	c.Label("depth2-merged")

	var decoded struct {
		Plugins []map[string]any `json:"plugins"`
	}
	if err := json.Unmarshal([]byte(out), &decoded); err != nil {
		c.Fatalf("mergeConfigList produced output that is not a JSON conflist: %v\n%s", err, out)
	}
	for _, p := range decoded.Plugins {
		if t, _ := p["type"].(string); t == pluginTypeCilium {
			c.Label("chain-has-cilium(store skipped)")
			return
		}
	}
	cniJSON, err := gabs.ParseJSON([]byte(out))
	if err != nil {
		c.Fatalf("output not parseable: %v", err)
	}
	if err := storeRuntimeConfig(filepath.Join(dir, "node_capabilities"), cniJSON); err == nil {
		c.Label("depth3-runtime-config-stored")
	}
}

func TestVerifC15TerwayCLI(t *testing.T) { vt.Run(t, vfC15GenCLI, g.NoPanic(vfC15RunCLI)) }
