UNITS = {
    "webhook": dict(pkg="./pkg/controller/webhook", tags="default_build"),
}

PROPS = {
    "C18": dict(
        level="exploration",
        technique="property-based testing (rapid): generated pods x PodNetworkings x namespaces x cluster configurations through the real admission entry points over controller-runtime's fake client; returned RFC 6902 patch applied by an independent implementation (evanphx/json-patch; the webhook builds patches with gomodules.xyz/jsonpatch); result checked sentence by sentence against the statement with harness-side selector evaluation and vSwitch-zone ground truth; the emitted required node affinity is evaluated with scheduler semantics (terms ORed, match expressions ANDed) over the zone universe; each emitted entry's allocation type is compared with the source it stands for (requested or bound PodNetworking definition, or the pod's own pod-networks entry), and the fixed-IP refusal is judged on what the pod asks for, not on the emitted list",
        rule="one case = one cluster (trunk, IPAM type, resource injection, eni-config whose default security groups are the union of the security_groups list (1-5, or 9-11 at the ten-group boundary) and an optional legacy security_group that is or is not among them, 1-3 namespaces, 0-5 PodNetworkings admitted through the real PodNetworking hooks, optional PodENI left by an earlier incarnation of the pod: with/without allocations, being deleted or not, zone inside or outside the current vSwitch zones) and one pod (host network, ignore label, 0-3 containers, owners, labels, the three network annotations alone/in conflict/malformed, 0-4 networks with interface names of 0-8 characters, 0-12 security groups, allocation types (pod-networks-request lists of 1-3 definitions whose allocation types may differ), pre-existing affinity and device requests); non-trivial = the pod is marked pod-eni=true, or denied for a reason other than malformed annotation JSON; distinct = distinct scenario hash",
        assumptions=[
            "PodNetworkings in the cluster are those the real mutating+validating PodNetworking handlers admit; their status lists every vSwitch of the spec with its true zone",
            "the eni-config ConfigMap, when present, names at least one vSwitch and one security group (its effective default list has 1-12 groups; more than ten must be refused, not emitted)",
            "custom stateful workload kinds (a process-wide list that can only grow) are not exercised: stable name = no owner or a StatefulSet owner",
        ],
        level_text="the real handlers are executed on generated inputs and every response is applied and checked against an oracle that restates the property; exploration of a bounded input space, not proof",
        level_note="trusts k8s API types/JSON encoding, the fake client and evanphx/json-patch as the reference applier; HTTP/TLS serving, the API server's own patch application and envtest-level wiring are not exercised; zone affinity is checked twice: every zone value the webhook adds is a zone in which each requested network has a vSwitch or the recorded previous zone of a fixed-IP pod; and, where the networks come from PodNetworking definitions and the webhook emitted a zone requirement, every zone the resulting affinity admits (scheduler semantics) is a zone in which each requested network has a vSwitch. A pod for which the webhook emits no zone requirement at all (bare vSwitch ids, DaemonSet, empty intersection without previous zone) is only counted. Pinning to the previous zone itself is not asserted: the statement does not claim it",
        tests=[
            dict(unit="webhook", test="TestVerifC18Webhook", quick=10000, thorough=500000),
            dict(unit="webhook", test="TestVerifC18KnownWitnessNoVSwitch", quick=1, thorough=1,
                 shards_quick=1, shards_thorough=1),
        ],
    ),
}
