UNITS = {
    "c15_k8s": dict(pkg="./pkg/k8s", tags="default_build"),
    "c15_controlplane": dict(pkg="./types/controlplane", tags="default_build"),
    "c15_typesdaemon": dict(pkg="./types/daemon", tags="default_build"),
    "c15_types": dict(pkg="./types", tags="default_build"),
    "c15_plugin": dict(pkg="./plugin/terway", tags="default_build"),
    "c15_cli": dict(pkg="./cmd/terway-cli", tags="default_build", unshare=True),
    "c15_eni": dict(pkg="./pkg/eni", tags="default_build"),
    "c15_daemon": dict(pkg="./daemon", tags="default_build", unshare=True),
    "c15_podeni": dict(pkg="./pkg/controller/pod-eni", tags="default_build"),
}

PROPS = {
    "C15": dict(
        level="exploration",
        technique="property-based testing (rapid): three input generators per user-writable field (valid / one mutation / raw bytes), a recovered panic is the only failure; bandwidth scaling checked against its own arithmetic",
        rule="per entry point, inputs drawn 1:1:1 from structured-valid, structured-valid with one mutation, raw byte strings; non-trivial = the input got past the first validation step of its parser (depth labels); distinct = distinct scenario hash",
        assumptions=[],
        level_text="generated inputs for every reachable user-writable field; exploration, not proof",
        level_note="",
        tests=[
            dict(unit="c15_k8s", test="TestVerifC15Bandwidth", quick=30000, thorough=3000000),
            dict(unit="c15_k8s", test="TestVerifC15BandwidthScale", quick=10000, thorough=1000000),
            dict(unit="c15_k8s", test="TestVerifC15KnownWitnessBandwidthNoUnit", quick=1, thorough=1, shards=1),
            dict(unit="c15_k8s", test="TestVerifC15ConvertPod", quick=16000, thorough=1000000),
            dict(unit="c15_k8s", test="TestVerifC15PodStore", quick=8000, thorough=400000),
            dict(unit="c15_controlplane", test="TestVerifC15PodNetworksAnnotation", quick=16000, thorough=2000000),
            dict(unit="c15_podeni", test="TestVerifC15NumaHints", quick=12000, thorough=2000000),
            dict(unit="c15_typesdaemon", test="TestVerifC15DaemonConfig", quick=16000, thorough=2000000),
            dict(unit="c15_types", test="TestVerifC15IPHelpers", quick=16000, thorough=2000000),
            dict(unit="c15_plugin", test="TestVerifC15CNIPlugin", quick=12000, thorough=1000000),
            dict(unit="c15_cli", test="TestVerifC15TerwayCLI", quick=8000, thorough=400000),
            dict(unit="c15_eni", test="TestVerifC15LocalLoad", quick=12000, thorough=1000000),
            dict(unit="c15_daemon", test="TestVerifC15PoolConfig", quick=8000, thorough=1000000),
            dict(unit="c15_daemon", test="TestVerifC15StoredRecords", quick=8000, thorough=400000),
        ],
    ),
}
