UNITS = {
    "c15_k8s": dict(pkg="./pkg/k8s", tags="default_build"),
    "c15_controlplane": dict(pkg="./types/controlplane", tags="default_build"),
    "c15_typesdaemon": dict(pkg="./types/daemon", tags="default_build"),
    "c15_types": dict(pkg="./types", tags="default_build"),
    # unshare: the IPVlan host-stack path programs tc filters on `lo` (only done when the
    # process sees nothing but `lo`, i.e. in its own network namespace)
    "c15_plugin": dict(pkg="./plugin/terway", tags="default_build", unshare=True),
    # unshare: terway-cli reads /var/run/eni/node_capabilities (tmpfs there) and probes netlink
    "c15_cli": dict(pkg="./cmd/terway-cli", tags="default_build", unshare=True),
    "c15_eni": dict(pkg="./pkg/eni", tags="default_build"),
    # unshare: gcPods / ruleSync talk netlink; ruleSync cases additionally create their own netns
    "c15_daemon": dict(pkg="./daemon", tags="default_build", unshare=True),
    # unshare: should a document without regionID slip past the harness' screen, the ECS
    # metadata lookup fails at once in an empty network namespace instead of timing out
    "c15_webhook": dict(pkg="./pkg/controller/webhook", tags="default_build", unshare=True),
    "c15_podctl": dict(pkg="./pkg/controller/pod", tags="default_build"),
    "c15_status": dict(pkg="./pkg/controller/status", tags="default_build"),
    "c15_podeni": dict(pkg="./pkg/controller/pod-eni", tags="default_build"),
}

PROPS = {
    "C15": dict(
        level="exploration",
        technique="property-based testing (rapid) plus, in the thorough tier, native coverage-guided go fuzzing: per user-writable field three input generators mixed 1:1:1 (structured-valid / structured-valid with one mutation / raw byte strings) fed to the real parser and to the code that consumes its result; the CNI plugin target continues from parseSetupConf into the IPVlan host-stack redirect (setupFilters/dstIPRule on `lo` in a private netns) with host_stack_cidrs in dotted, IPv6 and IPv4-mapped notation; configurations of the terway-controlplane ConfigMap that the real ParseAndValidate accepts are installed in the real MutatingHook and pods are admitted through its handler; the eni-config backoff_override is applied as the daemon does and followed into Remote.Allocate / CRDV2.Allocate in a child process per case (they answer from goroutines of their own; the child dying with a Go panic is the violation); kube-system/kubeadm-config (ClusterConfiguration / MasterConfiguration), the node's terway-config label and the dynamic-config ConfigMap are fed to the daemon's start-up readers in pkg/k8s (setSvcCIDR -> serviceCidrFromAPIServer, GetDynamicConfigWithName); a panic is the only failure, except the bandwidth sentence, checked against its own arithmetic (accepted with/without unit, aliases equal, x1024 per unit step within integer truncation, monotone in n)",
        rule="per entry point, inputs drawn 1:1:1 from valid-by-construction, valid with exactly one mutation (type swap, truncation, huge number, unicode, empty, null, renamed/duplicated key, mutation inside an embedded JSON string) and raw byte strings (random bytes / strings over the field's alphabet / hostile constants); CNI configurations are IPVlan configurations with 1..3 host_stack_cidrs entries (IPv4-mapped IPv6 prefixes 96..128 over-represented) in one case of three; ctrl-config documents carry every optional key absent / set / explicitly null (enableTrunk and enableWebhookInjectResource over all 4x4 combinations), as JSON or block YAML; backoff_override documents name 1..3 of pkg/backoff's keys (or unknown ones) with any subset of Duration/Factor/Jitter/Steps/Cap over zero/negative/huge values, against a fake API server with/without a matching PodENI / Node CR and a live or already cancelled request context; kubeadm-config documents come from a small YAML grammar (networking absent/scalar/list/null/map; serviceSubnet absent/CIDR/garbage/list/null/number/bool/map/dual-stack), in either or both keys, with eni-config service_cidr states that do and do not reach the fallback; for grammar-built documents the answer must be the CIDR written in the document or an error; non-trivial = the input got past the first validation step of its parser (decoded as JSON / numeric prefix parsed / annotation present / address parsed; see depth labels); distinct = distinct scenario hash",
        assumptions=[
            "daemon mode (ENIMultiIP/ENIOnly) and the reply's IP type are restricted to the values the daemon itself produces (convertPod and getDatePath panic by design on others)",
            "the daemon's reply reaches the plugin as gRPC messages: absent sub-messages are nil, repeated fields never hold nil",
            "stored records are decoded as InitResourceDB's deserialiser does (json.Unmarshal into daemon.PodResources; the closure itself is bound to a fixed path and is mirrored)",
        ],
        level_text="generated inputs for 15 parser/consumer entry points of the daemon, controllers, webhook, CNI plugin and terway-cli, with per-entry depth histograms; exploration, not proof; the thorough tier adds 8 native coverage-guided fuzz targets (30 s each) over the same oracles",
        level_note="parseSetupConf is only given ENI MACs that are empty (a MAC that does not resolve makes it wait 10 s); storeRuntimeConfig is only called on chains without cilium-cni (it would run nsenter/mount on the host); processInput's kernel/bpftool probes, InitResourceDB's closure and getENIConfig of terway-cli are mirrored (<= 5 lines each); controller-runtime recovers panics of webhook handlers and reconcilers by default, the harness calls podWebhook / podNetworkingWebhook / podNumaHints directly and is therefore stricter than production; the kernel of this sandbox refuses u32/mirred filters, so the IPVlan host-stack path ends at the first FilterAdd (rule computation, FilterList and matching are executed), and it is only judged for replies that carry an IPv4 service CIDR (the daemon always sends one); ctrl-config documents without a regionID are recognised and not driven (ParseAndValidate would query the ECS metadata service); the constructors of the pod / PodENI controllers, which dereference the published configuration, are mirrored by the same expression, not run; not reached: daemon AllocIP with stored records (needs a running pool, see C04/C05), plugin datapath set-up after parsing (C13), k8s.serviceCidrFromAPIServer / GetDynamicConfigWithName, Windows code",
        tests=[
            dict(unit="c15_k8s", test="TestVerifC15Bandwidth", quick=30000, thorough=3000000),
            dict(unit="c15_k8s", test="TestVerifC15BandwidthScale", quick=10000, thorough=1000000),
            dict(unit="c15_k8s", test="TestVerifC15KnownWitnessBandwidthNoUnit", quick=1, thorough=1, shards=1),
            dict(unit="c15_k8s", test="TestVerifC15KnownWitnessPodStoreNilPod", quick=1, thorough=1, shards=1),
            dict(unit="c15_k8s", test="TestVerifC15ConvertPod", quick=16000, thorough=1000000),
            dict(unit="c15_k8s", test="TestVerifC15ServiceCIDR", quick=12000, thorough=600000),
            dict(unit="c15_k8s", test="TestVerifC15PodStore", quick=8000, thorough=400000),
            dict(unit="c15_controlplane", test="TestVerifC15PodNetworksAnnotation", quick=16000, thorough=2000000),
            dict(unit="c15_podeni", test="TestVerifC15NumaHints", quick=12000, thorough=2000000),
            dict(unit="c15_podeni", test="TestVerifC15ENIIndex", quick=8000, thorough=400000),
            dict(unit="c15_status", test="TestVerifC15CardSelection", quick=8000, thorough=1000000),
            dict(unit="c15_typesdaemon", test="TestVerifC15DaemonConfig", quick=16000, thorough=1000000),
            dict(unit="c15_types", test="TestVerifC15IPHelpers", quick=16000, thorough=2000000),
            dict(unit="c15_plugin", test="TestVerifC15CNIPlugin", quick=12000, thorough=1000000),
            dict(unit="c15_cli", test="TestVerifC15TerwayCLI", quick=6000, thorough=80000),
            dict(unit="c15_eni", test="TestVerifC15KnownWitnessRecordNilPodInfo", quick=1, thorough=1, shards=1),
            dict(unit="c15_eni", test="TestVerifC15LocalLoad", quick=12000, thorough=400000),
            # one child process per case (the consumers answer from goroutines of their own)
            dict(unit="c15_eni", test="TestVerifC15BackoffOverride", quick=320, thorough=12000),
            dict(unit="c15_daemon", test="TestVerifC15PoolConfig", quick=8000, thorough=1000000),
            dict(unit="c15_daemon", test="TestVerifC15StoredRecords", quick=8000, thorough=200000),
            dict(unit="c15_daemon", test="TestVerifC15KnownWitnessStoredRecords", quick=1, thorough=1, shards=1),
            # one fresh network namespace per case (slow, serialised in the kernel): few cases
            dict(unit="c15_daemon", test="TestVerifC15RuleSync", quick=640, thorough=8000),
            dict(unit="c15_webhook", test="TestVerifC15Webhook", quick=8000, thorough=200000),
            dict(unit="c15_webhook", test="TestVerifC15ControlplaneConfig", quick=6000, thorough=300000),
            dict(unit="c15_podctl", test="TestVerifC15PodController", quick=8000, thorough=300000),
            # thorough tier only: native coverage-guided fuzzing of the same oracles (8 x 30 s)
            dict(unit="c15_k8s", fuzz="FuzzVerifC15Bandwidth", seconds=30),
            dict(unit="c15_k8s", fuzz="FuzzVerifC15ConvertPod", seconds=30),
            dict(unit="c15_k8s", fuzz="FuzzVerifC15PodStore", seconds=30),
            dict(unit="c15_k8s", fuzz="FuzzVerifC15KubeadmConfig", seconds=20),
            dict(unit="c15_controlplane", fuzz="FuzzVerifC15PodNetworks", seconds=30),
            dict(unit="c15_typesdaemon", fuzz="FuzzVerifC15DaemonConfig", seconds=30),
            dict(unit="c15_eni", fuzz="FuzzVerifC15LocalLoad", seconds=30),
            dict(unit="c15_plugin", fuzz="FuzzVerifC15CNIConf", seconds=30),
            dict(unit="c15_podeni", fuzz="FuzzVerifC15NumaHints", seconds=30),
            dict(unit="c15_webhook", fuzz="FuzzVerifC15ControlplaneConfig", seconds=20),
            dict(unit="c15_eni", fuzz="FuzzVerifC15BackoffOverride", seconds=20),
        ],
    ),
}
