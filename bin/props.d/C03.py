UNITS = {
    "c03_node": dict(pkg="./pkg/controller/multi-ip/node", tags="default_build"),
    "c03_daemon": dict(pkg="./daemon", tags="default_build", unshare=True),
}

PROPS = {
    "C03": dict(
        level="exploration",
        technique="property-based testing (rapid): generated records / histories against a release-gate oracle written from the statement",
        rule="tbd",
        assumptions=[],
        level_text="tbd",
        level_note="tbd",
        tests=[
            dict(unit="c03_node", test="TestVerifC03Functions", quick=20000, thorough=1000000),
            dict(unit="c03_daemon", test="TestVerifC03ClosedLoop", quick=800, thorough=40000),
        ],
    ),
}
