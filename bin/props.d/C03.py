UNITS = {
    # own unit names: other properties register the same packages with other settings
    "c03_node": dict(pkg="./pkg/controller/multi-ip/node", tags="default_build"),
    # in-package in daemon (white-box networkService); imports pkg/eni, pkg/k8s and
    # pkg/controller/multi-ip/node through zz_verif_c03_export.go shims. Private net+mount
    # namespace: nodecap reads /var/run/eni in init(), the agent GC uses netlink.
    "c03_daemon": dict(pkg="./daemon", tags="default_build", unshare=True),
}

PROPS = {
    "C03": dict(
        level="exploration",
        technique="property-based testing (rapid): (b) generated Node CR records x pod tables x NodeRuntime status maps through "
                  "releasePodNotFound / releaseUnUsedIP / gc (handleStatus+adjustPool) / syncPods / RuntimeFinalStatus; "
                  "(a) generated histories through the real controller ReconcileNode and the real node agent "
                  "(AllocIP/ReleaseIP/gcPods/cleanRuntimeNode over eni.Manager+CRDV2 and pkg/k8s) sharing one in-memory API server, "
                  "a stateful cloud stub underneath; release-gate oracle written from the statement over "
                  "(previous persisted record, new persisted record, cloud calls, pod table and NodeRuntime at reconcile start)",
        rule="cases drawn by rapid generators. Function level: 1-3 interfaces (InUse/Deleting/Detaching; secondary/trunk/high-performance) with "
             "bindings (pod, uid recorded / older incarnation / no uid) and idle addresses (Valid/Deleting), 6 pod slots (absent / Running / Pending / "
             "Succeeded / Failed, same or other incarnation), runtime entries of every shape (no entry, empty, initial only, deleted only, both in either "
             "order, nil values; never equal timestamps), pods that report addresses in their status (their bound ones, or - take-over - idle ones the record "
             "has not linked to them), IPv4 / dual / IPv6-only, pool sizes, cloud fault plan, optionally a lost assign answer per interface (its addresses meanwhile recorded "
             "and bound or idle) that the cloud replays to the next identical assign request, entry point release|trim|gc|sync|sync2 (two sync passes with "
             "drawn pod objects vanishing in between, second pass judged against the owners established by the first); "
             "non-trivial = a trim/gc/sync pass over >= 1 bound address, or a release pass with >= 1 bound address whose pod is gone. "
             "Closed loop: 4-30 (thorough 50) steps over <= 4 (6) pods of create / ADD (optionally reporting the pod IP) / delete object / "
             "phase Succeeded|Failed / DEL (current, superseded or unknown container id) / flush (may fail) / flushadd (the reporter tick runs, a CNI ADD for a pod completes "
             "while the tick's write to the API server is in flight, and that write fails) / agent GC (PodExist truthful, failing, "
             "stale-true; write may fail) / 5-minute job / reconcile (forced GC, full sync, status-write failure or conflict, a read of the Node CR from a lagging cache - the object as it was "
             "before the controller's own last write, only directly after such a write; the store enforces resourceVersion conflicts - cloud faults, or the next assign executed but its answer lost - the cloud "
             "stub then replays that answer to the next assign with the same interface and count, as the real API does for a reused client token; "
             "usually followed by a full sync) / "
             "agent restart / controller restart, on an IPv4, dual-stack or IPv6-only pool, on an ECS or a LingJun (EFLO) node - there with a step that makes the cloud list an address bound to a pod in a "
             "transitional status for 1-3 listings (the address stays assigned) -, plus bindings that pre-exist the history with or without a recorded UID and running pods that report "
             "addresses the record has not linked to them yet (take-over by the first reconcile); two thirds of the steps "
             "follow a pod's natural lifecycle, one third is arbitrary; non-trivial = some reconcile starts with a bound address whose pod object is "
             "gone while its teardown report is still pending, or a pool GC pass runs over >= 1 bound address. distinct = distinct scenario hash",
        assumptions=[
            "NodeRuntime timestamps of one pod are never equal: the harness gives every agent step its own virtual second (rewriting "
            "LastUpdateTime through the API right after the step); neither code nor docs define ties",
            "virtual time lies 2 h in the past, so the agent's 30 s freshness guard in cleanRuntimeNode never holds an entry back",
            "no out-of-band cloud drift (an address lost in the cloud is not a reclaim by the control plane); exercised under C02/C08",
            "function level: records are reachable ones - bindings only on interfaces the record still wants (InUse), addresses marked "
            "Deleting are unbound, a bound pod holds one address per enabled family on one interface (records with one family bound only make "
            "the allocator's roll-back unbind the other family of a LIVE pod; such records arise only from an IP-stack change on a running node)",
            "a teardown report that rests on the GC's API re-check (PodExist false) is accepted whatever the sandbox does, as the statement says; "
            "PodExist is by name, so it covers every UID that ever lived under that name",
            "reclaims are judged against the harness's ground truth, not against the UID the record carries: a binding the controller creates or takes "
            "over during the observed passes belongs to the pod object (UID) that existed in that pass, and its reclaim needs the teardown report of "
            "THAT uid (or a GC-verified absence) even if the record lost or never got the UID; only bindings that are already in the record without "
            "a UID before the history begins (taken over from a version that did not record UIDs) carry no teardown protocol - for them reclaim needs "
            "only the pod to be gone, until the record itself learns the UID",
        ],
        level_text="generated records and generated histories of the two-process protocol run through the real controller and the real node agent "
                   "against an oracle written from the statement; reclaims are also judged against the harness's ground truth of who was given a sandbox on the address (a later instance of the same pod name "
                   "that the agent served from its predecessor's record); bounded liveness (pod gone and teardown in NodeRuntime => freed by the next fault-free reconcile; and, if a history ends with an "
                   "address bound to a vanished pod whose teardown the agent had reported at some point - even if the report is gone again - two fault-free "
                   "rounds of flush / 5-minute housekeeping / agent GC / flush / reconcile must free it) and the agent-side clause (every `deleted` that appears belongs to a pod whose DEL was processed and that has not been given a sandbox again since, or that a GC verified "
                   "gone) are checked on every step; exploration, not proof",
        level_note="trusts controller-runtime's fake client as the API server (status subresources, index on spec.nodeName; the interceptor drops "
                   "status on create of NodeRuntime as a real API server does) and a 400-line cloud stub; the agent is assembled from its real parts "
                   "without NewCRDV2's controller manager and timers (the 3 s flush, the 5 min job, the GC loop and the reconcile queue are history "
                   "actions), steps are sequential except flushadd, which runs an ADD inside the reporter's API write (the only owned interleaving; after every ADD the "
                   "harness waits until the allocator has withdrawn the pod's pending teardown record, which it does from its own goroutine after the reply - "
                   "a condition on the agent's state polled by count, given up only when no goroutine beyond the process's idle set is left); the listed finding "
                   "C03-readd-stale-deleted is excused only when `deleted` was written in a step before the re-ADD's step; the kernel side of the agent GC runs against the "
                   "loopback device of a private netns; go map iteration inside the code under test is not owned by the seed",
        tests=[
            dict(unit="c03_node", test="TestVerifC03Functions", quick=20000, thorough=1000000),
            dict(unit="c03_daemon", test="TestVerifC03ClosedLoop", quick=4000, thorough=300000,
                 timeout_thorough=3000),
            dict(unit="c03_daemon", test="TestVerifC03KnownWitnessReAdd", quick=1, thorough=1, shards=1),
            dict(unit="c03_daemon", test="TestVerifC03KnownWitnessStaleUnassign", quick=1, thorough=1, shards=1),
            dict(unit="c03_daemon", test="TestVerifC03KnownWitnessStaleTransitional", quick=1, thorough=1, shards=1),
        ],
    ),
}
