UNITS = {
    "aliyunclient": dict(pkg="./pkg/aliyun/client", tags="default_build"),
    "aliyunclient_race": dict(pkg="./pkg/aliyun/client", tags="default_build", race=True, shrinktime="10s"),
}

PROPS = {
    "C16": dict(
        level="exploration",
        technique="property-based testing (rapid): generated issue/fail/succeed histories over the real request builders and token "
                  "generator (default and small cache capacities) against a token-ledger model; real OpenAPI calls over real ecs/eflo SDK clients with a gated fake "
                  "HTTP transport (harness-owned interleavings, drawn fault plans, per-call contexts that are already cancelled / "
                  "expired or cancelled mid-call); creates issued both from one fresh option and, node-controller style, from a "
                  "caller-owned shared leading option plus a fresh one (also through CreateNetworkInterfaceV2); goroutine stress "
                  "with an interleaving-sound ledger, also built with -race",
        rule="cases drawn by rapid: a pool of canonical parameter sets (one-field neighbours, tag maps of 0-30 entries, sizes 19-23 around the API limit of 20 over-weighted, rebuilt per "
             "attempt in a drawn insertion order, every set attempted >= 8 times) and a history of attempts (each create drawn as "
             "single-option or shared-leading-option call; on the wire each call drawn with a live, cancelled or expired context "
             "and attempts optionally cancelled while waiting); non-trivial = an "
             "ecs-create set with >= 2 tags was attempted, or a fail->retry pair occurred, or >= 2 requests with equal parameters "
             "were in flight together; distinct = distinct scenario hash",
        assumptions=[
            "two option values are 'the same parameters' iff they agree on every field that reaches the cloud request of that kind "
            "(tags as a set of pairs, security groups as a set); attempts of one parameter set keep the security-group order",
            "with several failed attempts of equal parameters a retry may carry the token of any of them (multiset reading)",
            "the history never has more tokens parked at once than the capacity of the generator's cache (IDEMPOTENT_KEY_CACHE_SIZE, "
            "default 500; a third of the builder histories run with capacity 2-8 and more parameter sets than slots, a fail that "
            "would exceed the capacity is played as a success): under that bound no parked token may be lost",
            "a caller that passes the same leading option object to every create passes 'the same parameters' each time: the "
            "client is expected not to write into caller-owned option values",
            "a call aborted on the client side before anything is sent is not an attempt of its own: the tokens parked by earlier "
            "failed attempts must still be carried by the following retries; it may park one token the wire never saw",
        ],
        level_text="generated histories, fault plans, call contexts, option-passing styles and harness-owned interleavings against an "
                   "independent ledger model; "
                   "goroutine stress repeated many times and under the race detector; exploration, not proof",
        level_note="trusted base: the alibaba-cloud SDK request serialisation (the token is read off the wire), rapid; "
                   "a token of a succeeded attempt being issued again for the same parameters is recorded but not judged "
                   "(the statement does not speak about it); races needing a preemption between two specific instructions may be missed",
        tests=[
            dict(unit="aliyunclient", test="TestVerifC16Machine", quick=16000, thorough=300000),
            dict(unit="aliyunclient", test="TestVerifC16Wire", quick=6000, thorough=120000),
            dict(unit="aliyunclient", test="TestVerifC16Stress", quick=480, thorough=8000),
            dict(unit="aliyunclient_race", test="TestVerifC16StressRace", quick=96, thorough=1600),
            dict(unit="aliyunclient", test="TestVerifC16KnownWitness", quick=1, thorough=1, shards=1),
        ],
    ),
}
