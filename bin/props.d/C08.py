UNITS = {"c02node": dict(pkg="./pkg/controller/multi-ip/node", tags="default_build", shrinktime="40s")}

# deterministic witnesses of the open findings listed in known_findings.json
_W = ["DoubleFaultOrphan", "GreedyDemand", "RDMAIdle", "DualStackImbalance", "SyncDropsDetachedENI", "EFLOPartialKeyCollision", "ExhaustedVSwitchHidesIdle"]

PROPS = {
    "C08": dict(
        level="fault_enumeration",
        technique="model-based stateful property testing (rapid) of the real ReconcileNode in a closed loop over a fake API server and a controller-level cloud simulator with generated fault plans "
                  "(before-effect / after-effect / partial, real error codes, status-update conflicts and failures); call-time quota monitors against a knowledge ledger, per-pass 'told but forgotten' check, "
                  "bounded-step convergence, record == cloud and no-orphan at the fixed point of a healthy settle phase",
        rule="drawn node configuration (stack, adapters 2..6(8), per-adapter limits 1..20, trunk/rdma/secondary flavor as the daemon publishes it, pool min<=max, 1..3 vSwitches with free counts, tag filter, attach/detach latency, strict or lenient Describe-by-id semantics, EFLO), "
             "0..3 consistent pre-existing interfaces, then 1..22(40) actions out of pod create/delete/exit/cniAdd/reportDeleted, reconcile, fullSync, burst, cloudFault, apiFault and fault episodes (faults armed right before demand arrives); "
             "non-trivial = a monitor was evaluated at a quota/batch boundary, or a fault hit between create and InUse (attach, wait, create-after-effect), or a partial assign happened; distinct = distinct scenario hash",
        assumptions=[
            "cloud simulated at the pkg/controller.Interface level (zz_verif/cloudctl): ECS assign calls answer (nil, err) on any error, the EFLO assign call may answer the name of a half-created address with an error, "
            "Detach of a missing interface and UnAssign of missing addresses succeed, Delete of a missing interface fails on ECS, DescribeNetworkInterfaces ANDs its filters; whether a query by interface id AND instance id also answers an interface that is attached to no instance cannot be confirmed offline, so each case draws one of the two semantics (strict: not answered / lenient: answered), "
            "the ECS create answer carries no traffic mode, addresses are never reused; idempotency tokens are below this interface (a create that took effect but timed out leaves an interface the controller was never told about: excluded from the orphan check)",
            "quota monitors judge a request against what the controller has been TOLD (Describe answers, successful Create/Assign answers, minus what it released), not against cloud ground truth; a restarted controller knows the persisted record",
            "convergence clause asserted only with spare capacity: at least one vSwitch option of the node's zone has >= 200 free addresses (the others may be exhausted or nearly so - the real vswitch.SwitchPool with its cached, possibly stale counts is used, the controller is expected to block a vSwitch the cloud refused and move on; a refused create per reconcile is a mutation request that never stops), growing an existing interface needs >= 20 free addresses on ITS vSwitch, the cloud admits as many interfaces as the node declares and no interface invisible to the controller uses up the quota; "
            "'served' excludes nothing in this mode (no drift); idle is counted as adjustPool counts it; idle primaries of interfaces that must stay (in-use siblings, trunk, rdma) are exempt from the upper bound; "
            "a fixed point = three consecutive reconciles without mutating cloud request and without change of the record's interfaces/addresses/bindings (sync timestamps and error conditions ignored); a pass may still report 'no capacity'",
            "refusal clauses (call-time monitors, a refusal of an earlier pass only - calls of one pass may run in parallel): after the cloud refused an assign on an interface with a count-exceeded code (Ipv4/Ipv6CountExceeded, EFLO 1013) no further address request for that interface is issued before a full sync has been answered; "
            "after the cloud refused a create / assign for lack of addresses (InvalidVSwitchId.IpNotEnough, QuotaExceeded.PrivateIpAddress) no further request is issued against that vSwitch while the controller's vSwitch cache entry is alive (cleared at the settle phase's cache expiry and on restart); "
            "an exhausted vSwitch (0 free IPv4) refuses IPv6 assigns as well; 3 of 4 cases keep the vSwitch cache (stale positive counts, blocks) across the settle phase, 1 of 4 expire it first",
            "rollback clause: per pass, everything the controller was told and did not release is in the record it persisted; at the fixed point record == cloud for interfaces attached to the instance and their address sets "
            "(interfaces recorded as Deleting only need to stay recorded), and no interface answered by a Create call is left unattached and unrecorded; the exclusion of finding C08-sync-drops-detached-eni applies only where the full sync cannot see the detached interface (strict Describe semantics, or a kind other than Secondary, which the sync drops without looking) - under lenient semantics a leaked Secondary interface is a violation; a throttled Delete may persist for up to three calls",
            "hard-coded waits in pool.go scaled by a line-preserving source transform; LastReconcileTime guard reset, gcPeriod 0, backoff table overridden; cached vSwitch blocks are expired before the settle phase",
        ],
        level_text="fault placements over the cloud-call and status-write sequence of each history are sampled by the generator (per call kind: error before effect, after effect, partial result; per error code), not exhaustively enumerated; "
                   "on every explored history the monitors, the per-pass rollback check and, after a forced full sync plus healthy rounds, convergence / band / record == cloud / no orphan held outside the listed findings",
        level_note="7 open findings of the pool balancer, the sync path and the rollback path (known_findings.json) are excluded by class predicates, each with a deterministic witness; 6 further defects found by this check were repaired in /repo and are covered without guard. "
                   "Liveness is bounded-step (40 rounds) under a harness-driven schedule; EFLO is simulated at the same interface with its IPName semantics",
        tests=[dict(unit="c02node", test="TestVerifC08Loop", quick=8000, thorough=150000, timeout_quick=900)] +
              [dict(unit="c02node", test="TestVerifC08Known" + w, quick=1, thorough=1, shards=1) for w in _W],
    ),
}
