UNITS = {"c02node": dict(pkg="./pkg/controller/multi-ip/node", tags="default_build", shrinktime="40s")}

# candidate findings reported to the lead; until they are entered into known_findings.json
# (or repaired) their guards are switched on through this variable
_PENDING = {"VERIF_PENDING_KNOWN": "C08-double-fault-orphan,C08-idle-eni-kept,C08-greedy-demand-oscillation,C08-eflo-partial-key-collision,C08-negative-slot-count,C08-sync-merge-nil-map,C08-sync-drops-detached-eni,C08-lost-write-no-resync,C08-rollback-record-lacks-mode,C08-rdma-idle-oscillation,C08-dual-stack-imbalance,C02-v4-not-on-v6-eni,C02-rollback-unbinds-existing-v4"}

_W = ["DoubleFaultOrphan", "IdleENIKept", "GreedyDemand", "RDMAIdle", "DualStackImbalance", "LostWrite", "RollbackRecordLacksMode",
      "SyncMergeNilMap", "SyncDropsDetachedENI", "EFLOPartialKeyCollision", "NegativeSlotCount"]

PROPS = {
    "C08": dict(
        level="fault_enumeration",
        technique="todo",
        rule="todo",
        assumptions=[],
        level_text="todo",
        level_note="todo",
        tests=[dict(unit="c02node", test="TestVerifC08Loop", quick=2400, thorough=60000, env=_PENDING)] +
              [dict(unit="c02node", test="TestVerifC08Known" + w, quick=1, thorough=1, shards=1, env=_PENDING) for w in _W],
    ),
}
