UNITS = {"c02node": dict(pkg="./pkg/controller/multi-ip/node", tags="default_build", shrinktime="40s")}

_assume = [
    "cloud simulated at the pkg/controller.Interface level (zz_verif/cloudctl): ECS assign calls answer (nil, err) on any error, Detach of a missing interface and UnAssign of missing addresses succeed, "
    "DescribeNetworkInterfaces ANDs its filters (an interface that is not attached does not match an instance-id filter), addresses are never reused; asynchronous status changes advance per poll, the simulator never sleeps",
    "API server = controller-runtime fake client with types.Scheme, status subresources, the spec.nodeName index and real optimistic-concurrency conflicts (a concurrent writer is interposed by an interceptor)",
    "hard-coded waits in pool.go (3 s after attach, 1 s waitTime) scaled by a line-preserving source transform; the 1 s LastReconcileTime guard is reset and gcPeriod is 0 from in-package harness code; backoff table overridden to microseconds",
    "clause (iv) 'only while valid and in use' is asserted for bindings created by the pass; a pod re-adopted onto the address it reports is exempt only as far as the address / interface was already scheduled for deletion or not in use before the pass (the statement's second and third sentence conflict for a running pod whose address was marked for deletion earlier); a re-adoption onto an address or interface that this very pass scheduled for deletion is a violation (interfaces detached behind the controller's back excepted, and on EFLO addresses first seen in the pass, whose status the cloud dictates)",
    "clause (iv) for kept bindings: a binding that stays on the same pod, whose pod still exists with a live sandbox, whose address was Valid on an interface not marked Deleting before the pass, and whose interface was attached to the instance in the cloud when the pass started, must not be Deleting (address or interface) after it; marking an interface that was detached behind the controller's back is the allowed reaction to drift",
    "clause (iv) for release requests: an UnAssign request issued in a pass must not name an address that the record the pass started from binds (status Valid, interface not marked Deleting) to a pod that still exists with a live sandbox - marking and releasing within one pass leaves no Deleting entry in the published record to judge",
    "clause (i) is read across consecutive records: an address bound to a pod whose sandbox has not exited must not be rebound to another pod (the record itself can name one owner only)",
    "initial records are generated consistent with (i)-(iii) but otherwise arbitrary: bindings without PodUID, one family only, on interfaces that are not InUse, on Deleting or primary addresses, records unknown to / stale against the cloud",
]

PROPS = {
    "C02": dict(
        level="exploration",
        technique="property-based testing (rapid) at two layers: generated Node CR records through buildIPMap/releasePodNotFound/assignIPFromLocalPool, and model-based stateful histories over the real ReconcileNode in a closed loop "
                  "(fake API server + controller-level cloud simulator); record invariants checked on every persisted Node CR",
        rule="function layer: 1..4(6) interfaces x 1..6(10) pods with drawn statuses, kinds, address states and (partial) pre-bindings/reports; loop layer: RDMA pods get a drawn container layout (1..3 containers plus 0..2 init containers, the aliyun/erdma limit on a non-empty subset, over-weighted: only the first container, only an init container, every container but the last) and whether a pod is an RDMA pod is judged from that intent, not from the scan in the code; drawn node configuration (stack, adapters, per-adapter limits, trunk/rdma flavor, pool, vSwitches, "
             "tag filter, EFLO, NodeRuntime object absent until the daemon first reports in 1/4 of the cases - then half of the pre-bindings are UID-less bindings of running pods), 0..3 pre-existing interfaces with partially bound records, then 1..22(40) actions out of create/delete/exit/cniAdd/reportDeleted/reconcile/fullSync/drift (address or interface removed / detached / added out of band; on EFLO nodes also: an existing address reported in a transient non-Available status for 1..3 observations, optionally with an immediate full sync)/restart/apiFault/cloudFault/burst, then a settle phase; "
             "non-trivial = a pass starts with >=2 interfaces holding >=2 idle candidates for >=2 pending pods, or a pod that reports an address is (to be) re-adopted, or a dual-stack pass where an interface has idle IPv4 but no idle IPv6; distinct = distinct scenario hash",
        assumptions=_assume,
        level_text="randomised exploration; every persisted record of every explored history satisfies: one owner per address and no transfer from a live pod, at most one IPv4 and one IPv6 per pod on one interface, "
                   "fresh bindings only on Valid addresses of InUse interfaces of the right (RDMA / non-RDMA) kind, no pass schedules the address or interface of a kept binding of an existing pod for deletion nor asks the cloud to unassign such an address, re-adoption onto exactly the reported address and never onto something the same pass scheduled for deletion, bindings only for existing pods served by the node IPAM; not exhaustive",
        level_note="map-iteration order inside assignIPFromLocalPool is not controlled (the oracle accepts any valid choice); 'addresses the daemon reads back' is covered through the record only; "
                   "two defects found by this check (IPv4 not following an existing IPv6 binding's interface; roll-back unbinding a pre-existing IPv4) were repaired in /repo, no finding is open",
        tests=[dict(unit="c02node", test="TestVerifC02Assign", quick=80000, thorough=2000000),
               dict(unit="c02node", test="TestVerifC02Loop", quick=6000, thorough=150000, timeout_quick=900)],
    ),
}
