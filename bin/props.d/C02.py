UNITS = {"c02node": dict(pkg="./pkg/controller/multi-ip/node", tags="default_build", shrinktime="40s")}

PROPS = {
    "C02": dict(
        level="exploration",
        technique="todo",
        rule="todo",
        assumptions=[],
        level_text="todo",
        level_note="todo",
        tests=[dict(unit="c02node", test="TestVerifC02Assign", quick=40000, thorough=1000000, env={"VERIF_PENDING_KNOWN": "C02-v4-not-on-v6-eni,C02-rollback-unbinds-existing-v4"}),
               dict(unit="c02node", test="TestVerifC02KnownV4NotOnV6ENI", quick=1, thorough=1, shards=1, env={"VERIF_PENDING_KNOWN": "C02-v4-not-on-v6-eni,C02-rollback-unbinds-existing-v4"}),
               dict(unit="c02node", test="TestVerifC02KnownRollbackUnbindsExistingV4", quick=1, thorough=1, shards=1, env={"VERIF_PENDING_KNOWN": "C02-v4-not-on-v6-eni,C02-rollback-unbinds-existing-v4"}),
               dict(unit="c02node", test="TestVerifC02Loop", quick=2400, thorough=60000, env={"VERIF_PENDING_KNOWN": "C02-v4-not-on-v6-eni,C02-rollback-unbinds-existing-v4"})],
    ),
}
