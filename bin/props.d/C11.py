PROPS = {
    "C11": dict(
        level="exploration",
        technique="placeholder",
        rule="placeholder",
        assumptions=[],
        level_text="placeholder",
        level_note="placeholder",
        tests=[dict(unit="c10loop", test="TestVerifC11ClosedLoop", quick=600, thorough=20000),
               dict(unit="c10loop", test="TestVerifC11Retention", quick=3000, thorough=100000),
               dict(unit="c10loop", test="TestVerifC11LeakGC", quick=3000, thorough=100000)],
    ),
}
