# C11 uses unit "c10loop" (defined in C10.py): the same closed-loop harness.

PROPS = {
    "C11": dict(
        level="exploration",
        technique="property-based testing (rapid): (a) closed-loop histories of fixed-IP pods recreated under the same name over the real ReconcilePod/ReconcilePodENI, "
                  "(b) generated record/pod populations with last-seen ages around each TTL under the real gcCRPodENIs, (c) generated cloud interface populations "
                  "(tags x age x referenced x status x type) under the real gcSecondaryENI/gcMemberENI with a call-time monitor on every Detach/Delete",
        rule="(a) TestVerifC11ClosedLoop (the cloud simulator remembers the DeleteOnRelease option of every create call and histories contain the event: ECS instance of a node released): C10's history generator with every pod's first interface fixed-IP (TTL >= 5 min or Never); non-trivial as in C10 (recreate / rollback / leave-while-attaching). "
             "(b) TestVerifC11Retention: 1..3 seeded records (phase drawn from all six, 1..3 allocations each Elastic / Fixed TTL / Fixed Never / unset / unknown strategy, releaseAfter valid, unparsable or negative, "
             "podLastSeen = now - D with D in {0..2 s, TTL - m, TTL + m, 10 x TTL, unset}, m in {3,5,10} s, pod absent / alive / exited / terminating on a drawn node (a quarter of the pods carry no pod-eni annotation and live on the exclusive-ENI node, so outside CRD mode only the node label makes the collector keep them), UID matching or not; only reachable states: a record in Detaching/Deleting never carries the UID of a pod that still exists) and 1..8 actions "
             "(gcCR with optional API fault, pod gone / exit / delete / recreate, ReconcilePod, ReconcilePodENI; a quarter of the gcCR passes have an action interleaved right AFTER the collector took its List snapshot and before it walks it: a whole pod incarnation (recreated, reconciled until Bind, gone, reconciled to Unbind) or a single pod event / reconcile, on a fake client that enforces resourceVersion conflicts), in a third of the cases followed by a script [gcCR (pod observed), pod leaves, reconcilers finish the transition to Unbind, gcCR]; non-trivial = a last-seen age within 30 s of a TTL boundary or >= 2 allocations with different strategies. "
             "(c) TestVerifC11LeakGC: the zone of the controller process (time.Local) is drawn per case (UTC, +8, +1, -8, -5 h; set for the duration of the case and restored), 1..8 interfaces, each starting as reapable (both tags ours, age > 10 min, Secondary/Available or Member/InUse, unreferenced) with 0..2 conditions spoiled "
             "(cluster tag other/absent, creator tag other/absent, age 0 / 30 s / 10 min - m / unparsable, other status, other type, referenced by a seeded record), m in {3,5,20} s, then 1..4 collector passes "
             "(optionally with a cloud or API fault); non-trivial = population with >= 1 reapable and >= 1 protected interface. distinct = distinct scenario hash",
        assumptions=[
            "no clock hook: timestamps are generated relative to the wall clock. Must-keep / must-not-reap assertions are evaluated against the clock read AFTER the step (retention) or AT the monitored cloud call (leak GC): "
            "the code read its clock earlier, so 'lastSeen + TTL > t_after' (resp. 'created + 10 min > t_call') implies the code saw an unexpired TTL (a young interface); a slow machine only widens the undecided window and can never cause a false alarm",
            "a Bind written by ReconcilePodENI counts as an observation of the pod at the start of that reconcile (harness clock); the later of the stored status.podLastSeen (second granularity) and the start of the last fault-free gcCR pass during which the pod existed alive - taken from the harness own pod table, whatever the record phase (Binding/Detaching records are observed too) and whatever the code stored",
            "a fixed-IP record may be given up only by gcCRPodENIs; in the closed loop TTLs are >= 5 min and a case that ran longer than 2 min is discarded as inconclusive",
            "a record referencing an interface in any phase (including Deleting) counts as a reference; an interface with an unparsable creation time is of unknown age and must not be reaped",
            "last observation of a pod by the controllers (per pod, never reset) = the latest of: the record's metadata.creationTimestamp (ReconcilePod creates a record only for a pod it has just read; stamped at Create by the API simulation exactly as the API server does, wall clock), the start of the ReconcilePod step that created a record for the live pod, the start of the ReconcilePodENI step that wrote Bind, the start of a fault-free gcCR pass during which the same pod instance was alive, and the stored status.podLastSeen; a fixed-IP record whose podLastSeen is still unset must therefore be kept until its TTL has elapsed since its creation (seeded records with unset podLastSeen carry a drawn creation age around the TTL; a release after that is counted under label gc-release:lastseen-unset-ttl-elapsed-since-creation)",
        ],
        level_text="about 1500 closed-loop histories, 4000 retention populations and 4000 leak-GC populations per quick run (60000 / 250000 / 250000 thorough) against the real collectors; exploration, not proof",
        level_note="TTL and grace boundaries are approached to within 3 s, not hit exactly; Describe filters of the simulator follow the documented ECS semantics (type/status/tag filters are honoured); "
                   "the periodic scheduling of the collectors (wait.JitterUntil) is replaced by explicit passes",
        tests=[dict(unit="c10loop", test="TestVerifC11ClosedLoop", quick=1500, thorough=60000),
               dict(unit="c10loop", test="TestVerifC11Retention", quick=4000, thorough=250000),
               dict(unit="c10loop", test="TestVerifC11LeakGC", quick=4000, thorough=250000),
               dict(unit="c10loop", test="TestVerifC11KnownMixedPodInstanceRelease", quick=1, thorough=1, shards=1)],
    ),
}
