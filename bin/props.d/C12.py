UNITS = {
    # in-package test of plugin/terway (package main) that imports the export shims
    # daemon/zz_verif_c12_export.go and pkg/eni/zz_verif_c12_export.go
    "c12": dict(pkg="./plugin/terway", tags="default_build"),
}

PROPS = {
    "C12": dict(
        level="exploration",
        technique="property-based testing (rapid): generated allocation worlds and generated pool histories (ADD/DEL/balancer pass over empty ENI "
                  "slots and a small cloud whose new ENIs land in different vSwitches) run through the real daemon "
                  "AllocIP (real eni.Manager + Local/Trunk/CRDV2 allocators over a fake API server), reply checked "
                  "against scenario ground truth and a big-integer gateway reference (pod gateway per family; for trunk members also the trunk ENI gateway in ENIInfo: third-from-last of the trunk ENI's own subnet of that family from the real CRDV2.getTrunkENI, or the metadata gateway on the legacy path, present for every family the pod has an address in); after every ADD the real GetIPInfo (CHECK/DEL) is asked for the "
                  "same sandbox, put under the same oracle and compared with the ADD reply; the ADD reply is then marshalled and fed to the "
                  "plugin's real parseSetupConf and the GetIPInfo reply to the real parseTearDownConf (DEL) and parseCheckConf (CHECK), which must "
                  "recover the addresses, gateway, interface name, ENI index and flags the daemon sent (and ADD recovered); datapath: CHECK == ADD == "
                  "T(ipType, trunk, vlan mode); DEL is judged against the table WITHOUT trunking, T(ipType, false, vlan mode) - teardown does not "
                  "distinguish trunk members (literal false in parseTearDownConf, doCmdDel only has ipvlan/policy-route teardown branches and "
                  "GenericTearDown removes everything else); that is still a mapping determined by IP type, trunking and VLAN mode, and the "
                  "statement does not demand DEL == ADD "
                  "(round-trip + table/metamorphic check of getDatePath); as in doCmdAdd/doCmdCheck/doCmdDel ALL interfaces of a reply are parsed first and "
                  "the recovered configurations are judged afterwards, and interfaces often share a vSwitch (identical CIDR strings)",
        rule="cases drawn by rapid generators (allocation world: legacy pool / exclusive ENI / trunk PodENI / CRD node "
             "binding / CRD PodENI, ipv4|dual|ipv6, 1-4 allocations, CNI conf, runtime bandwidth); non-trivial = reply "
             "with >= 2 NetConfs, or dual-stack, or a runtime bandwidth override, or a CRD node holding stale records of an earlier incarnation of the pod (for the defaulting test: list of >= 2 "
             "entries; for the datapath table: trunk set); PodENI records may be incomplete (subnet of a family missing or /31,/32,/127,/128): no configuration (error or empty reply) is accepted there, a reply carrying an address without subnet+gateway is not; pool histories: 2-30 operations over 1-2 slots, non-trivial = dual-stack or an ADD after an ENI was disposed; every configuration the daemon returns for the pod is checked: AllocIP reply and the following GetIPInfo reply; distinct = distinct scenario hash",
        assumptions=[
            "PodENI objects have the shapes terway's controllers write: every allocation has an IPv4 address (plus IPv6 on dual-stack) with its "
            "vSwitch CIDR - except in the 'incomplete record' class (1 world in 8: one family's CIDR empty or too small for the reserved gateway), "
            "where handing out no configuration is accepted; Status.ENIInfos has an entry per allocation, interface names are distinct; on a dual-stack node each allocation independently lacks IPv6 one time in three (with or without the vSwitch's ipv6CIDR recorded) - a family the "
            "allocation lacks must be absent from its NetConf, and no address may appear on two interfaces of one reply; vSwitches of one pod do not overlap; allocations after the first reuse the vSwitch of an earlier "
            "one half of the time (same CIDR strings, distinct addresses); "
            "default-route flags and the presence of a primary interface are NOT assumed (the daemon must refuse bad combinations)",
            "CRD worlds: 1 in 6 has an incomplete ENI record in the Node CR (ipv4CIDR/ipv6CIDR empty - e.g. recorded before the vSwitch got IPv6 - "
            "or malformed), usually on the ENI the pod is bound to: no configuration (error or empty reply) is accepted there, a carried family "
            "must come with subnet and gateway. Too-small subnets (/31,/32,/127,/128) are NOT generated for Node CR records: a vSwitch is at "
            "least /29 and /64 and the controller copies it from the cloud (on such a record the unchanged daemon returns address + subnet "
            "without a gateway)",
            "CRD worlds: the pod's current binding (PodID + current PodUID) is one slot of one ENI; other slots may be held by other pods or, "
            "Valid, by an earlier incarnation of the same namespace/name with a different non-empty PodUID (recreated pod); each such world "
            "repeats the request 6 times because the daemon ranges over Go maps",
            "pool histories (TestVerifC12PoolHistory): legacy shared-ENI pool of empty slots, ipv4 or dual stack (an IPv6-only pool is left out: "
            "with stale state the pool dereferences a nil ENI in a worker goroutine, which would end the run as inconclusive), the harness plays the "
            "balancer (one syncPool pass with max idle 0) and waits for the dispose worker; a refused ADD (pool full) is not judged; the subnet "
            "ground truth is the vSwitch of the live ENI that owns the IPv4 address of the reply",
            "single-ADD pool worlds serve the request from a cached free address (no cloud call); vSwitch CIDRs are /8../29 and /32../120 "
            "with pod addresses never on the network, gateway or last two addresses (the cloud's rule)",
            "ENI MAC addresses are empty or the address of a physical network device of the machine running the check (found through sysfs + "
            "net.Interfaces, e.g. eth0), because link.GetDeviceNumber needs an existing plain device; with such a MAC the ENI index recovered by "
            "ADD/DEL/CHECK must be that device's index; on a machine without such a device only empty MACs are generated",
            "NetConf messages fed directly to the parser have the structure AllocIP emits (BasicInfo with PodIP/PodCIDR/GatewayIP/"
            "ServiceCIDR present); IP types are the three enum values, parse round-trip uses the two the daemon emits",
        ],
        level_text="generated allocation results of all three kinds are pushed through the real daemon reply assembly (ADD reply and the stored "
                   "configuration GetIPInfo returns afterwards) and the real "
                   "plugin parser and compared with independent ground truth; exploration, not proof",
        level_note="trusted base: Go net/netip/math/big, protobuf runtime, controller-runtime fake client. Not reached: the wiring "
                   "in daemon/builder.go (mirrored by the harness: Local/Trunk for legacy, CRDV2 for ipam crd), the metadata-service "
                   "reader that supplies gateway/CIDR of pool ENIs (replaced by generated values), ENI index lookup, and what the "
                   "datapath drivers do with the SetupConfig (C13).",
        tests=[
            dict(unit="c12", test="TestVerifC12World", quick=10000, thorough=300000),
            dict(unit="c12", test="TestVerifC12PoolHistory", quick=1600, thorough=40000),
            dict(unit="c12", test="TestVerifC12Parse", quick=10000, thorough=400000),
            dict(unit="c12", test="TestVerifC12DefaultRoute", quick=4000, thorough=200000, shards_quick=2),
            dict(unit="c12", test="TestVerifC12DatapathTable", quick=1000, thorough=20000, shards_quick=1, shards_thorough=2),
        ],
    ),
}
