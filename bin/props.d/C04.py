UNITS = {"daemon": dict(pkg="./daemon", tags="default_build", unshare=True, shrinktime="40s"),
         "c09_k8s": dict(pkg="./pkg/k8s", tags="default_build")}

_assume = [
    "real daemon networkService with fields set directly (the builder needs cloud credentials); Kubernetes simulated by a pod table (GetPod falls back to its cache for vanished pods like the real implementation); real DiskStorage (bolt) in a scratch file; real eni.Manager + Locals over the cloudsim factory",
    "300 ms batching delay of the pool scaled through the build overlay; pool rate limiter unlimited",
]

PROPS = {
    "C04": dict(
        level="exploration",
        technique="model-based stateful property testing (rapid) with harness-owned schedules: requests parked at drawn gates (k8s lookup, cloud call, storage write) for overlap and cancellation; per-pod model of the latest acknowledged ADD as oracle",
        rule="drawn pool configuration (IPv4 / dual stack, and IPv6-only in 1/6 of the cases as coverage beyond what Config.Validate admits); history of 1..15 (thorough 40) steps over 5 pods x sandbox ids {current, older, never used}: plain ADD/DEL/GET, overlap steps (A parked at gate j, B issued for same/other pod), cancel steps (A cancelled while parked at gate j), race steps (two status queries for one pod released from a spin barrier 20..60 times, every admitted request held at its pod lookup: never two inside), pod recreation; non-trivial = the history really parked a request for an overlap or cancel step, or issued a stale-id DEL/GET against a newer ADD; distinct = distinct scenario hash",
        assumptions=_assume + ["storage write failures and cloud faults are outside the statement's quantifier and are not injected"],
        level_text="every gate index between two external effects of a request is a drawable parking point, so 'B arrives while A is inside the cloud call' and 'cancel between database write and reply' are constructed deterministically; exploration over drawn histories, not exhaustive",
        level_note="a failed repeat of an acknowledged ADD leaves the model 'uncertain' (the statement pins neither outcome); see known finding C04-cancelled-repeat-add-releases-held",
        tests=[dict(unit="daemon", test="TestVerifC04Requests", quick=3200, thorough=12000, timeout_quick=900),
               dict(unit="daemon", test="TestVerifC04KnownCancelledRepeat", quick=1, thorough=1, shards=1)],
    ),
}

PROPS["C09"] = dict(
    level="exploration",
    technique="property-based testing (rapid) over generated (store, pod table) pairs with classes computed independently of the code; harness-owned schedule for GC-vs-request (request parked inside the service while gcPods starts)",
    rule="TestVerifC09GC: 1..8 (thorough 14) stored records, each pod in a class {running, sandbox exited, missing from the local list but existing, API lookup failing, absent, absent with sticky IP} x {interface on host, interface no longer attached} x {legacy record}; store insertion order permuted; 1..3 GC passes, optionally with a request parked mid-flight; non-trivial = at least one collectable and one must-survive record, or a record whose interface is missing together with another collectable one. TestVerifC09Kernel: 2..5 pods whose namespace and name are drawn from {a,b,c} (mirrored pairs are common), each with the host-side veth and policy rules the plugin leaves after ADD, in a private network namespace; non-trivial = a mirrored namespace/name pair exists. TestVerifC09Runtime (ipam type crd): 0..6 NodeRuntime entries x {initial, deleted, initial-then-deleted, deleted-then-initial} x {fresh, older than the grace period} x pod {exists, gone, API lookup fails} x {local record, none} x {malformed pod id}; non-trivial = some entries must be reported and some must not, or the record database is empty. TestVerifC09Loop: the real startGarbageCollectionLoop (period scaled to 2 ms through the build overlay) over 1..3 vanished and 0..2 running pods while the first 0..3 passes (and optionally a later one) cannot read the pod list; non-trivial = at least one failing pass. TestVerifC09PodExist (real pkg/k8s object over a fake API server whose resourceVersion=0 reads come from a lagging snapshot): 2..14 (thorough 30) steps of pod create / delete / recreate / move to another node / cache catch-up / PodExist / GetLocalPods; (pods may carry the ignore-by-terway label, put on or taken off while they run); non-trivial = a PodExist query while cache and store disagree about that pod, or for a labelled pod. TestVerifC09Starve: 1..5 vanished pods, 0..2 running ones and one vanished pod whose release fails on EVERY pass, sorting before / between / after the others; all others must be collected within 600 passes (the unchanged code reaches a record behind the failing one only when the random rotation of the map order starts there). distinct = distinct scenario hash",
    assumptions=_assume + ["'interface present on the host' is modelled by the loopback device of a private network namespace (the only netlink.Device available), 'no longer attached' by a MAC no host device carries"],
    level_text="expected survivor set is computed from the pod table alone and compared after every pass: collected within one pass (two for sticky IPs), survivors byte-identical and still owned, third pass idempotent, nothing moves while a request is in flight; kernel state (veth, policy rules) of every pod that must survive is intact after every pass; in crd mode exactly the entries of verified-gone, record-less pods with an old 'initial' status carry a teardown report after one pass and every other entry is unchanged; the loop keeps running after failed passes and collects within two good passes; PodExist answers from the authoritative store, never from the lagging cache",
    level_note="storage write failures are not injected (outside the quantifier)",
    tests=[dict(unit="daemon", test="TestVerifC09GC", quick=1500, thorough=60000, timeout_quick=900),
           dict(unit="daemon", test="TestVerifC09Kernel", quick=400, thorough=8000, timeout_quick=900),
           dict(unit="daemon", test="TestVerifC09Runtime", quick=1600, thorough=40000, timeout_quick=900),
           dict(unit="daemon", test="TestVerifC09Loop", quick=120, thorough=1200, timeout_quick=900),
           dict(unit="daemon", test="TestVerifC09Starve", quick=160, thorough=1600, timeout_quick=900),
           dict(unit="c09_k8s", test="TestVerifC09PodExist", quick=8000, thorough=400000),
           dict(unit="daemon", test="TestVerifC09KnownLegacy", quick=1, thorough=1, shards=1)],
)

PROPS["C05"] = dict(
    level="fault_enumeration",
    technique="crash-point enumeration over generated request histories (rapid): snapshot of (bolt file, cloud state, acknowledged-request model) at every externally visible effect; a restarted service is rebuilt from each snapshot with the real reload/re-apply code and checked against the model",
    rule="TestVerifC05Restart: history of 1..10 (thorough 24) ADD / new-sandbox ADD / DEL / balancer-pass steps over 5 pods and a drawn pool configuration; crash points = every cloud call (before/after), every database Put/Delete (before/after) and every reply; quick tier restarts a drawn subset of <= 12 points per history, thorough tier all of them; non-trivial = at least one crash point strictly inside a request (between its first and last effect) or an interface vanished while the daemon was down; in a quarter of the IPv4 scenarios the stored records of a drawn subset of pods are rewritten into the legacy format (type + <mac>.<ip> id) before every restart. TestVerifC05Sticky: 2..14 (thorough 30) ADD / new-sandbox ADD / DEL / restart-from-a-byte-copy steps over 4 pods, two thirds of them with a reserved address (their DEL keeps the stored record); non-trivial = a restart in a history with an acknowledged DEL of such a pod. distinct = distinct scenario hash",
    assumptions=_assume + ["the ~50 lines of NetworkServiceBuilder.setupENIManager that wire restart (list db, getPodResources, filterENINotFound, NewLocal per attached interface - behind eni.Trunk for the trunk interface in a quarter of the configurations -, NewManager, Manager.Run) are mirrored in the harness because that function needs cloud credentials and the metadata service",
                           "process death inside the service is modelled by discarding all in-memory state at an effect boundary and keeping the bytes of the database file as they are at that instant; in addition a real child process writing a generated Put/Delete stream to a real DiskStorage is SIGKILLed at a drawn instant and the file reopened; power-loss durability (fsync) is not observable and not claimed"],
    level_text="for every explored crash point: acknowledged ADDs keep record+ownership, the in-flight request is followed up as the runtime would (retry or DEL), owners == acknowledged holders exactly (nothing stranded), and filling the node with fresh pods yields exactly capacity - acknowledged allocations and never an acknowledged address; at every quiescent point each stored record's address is owned by that pod in the pool and no address is in two records (so a restart reproduces what the daemon held)",
    level_note="crash points are effect boundaries of the request goroutine and pool workers; a crash between two in-memory steps without an external effect is indistinguishable from the preceding boundary",
    tests=[dict(unit="daemon", test="TestVerifC05Restart", quick=160, thorough=2400, timeout_quick=900),
           dict(unit="daemon", test="TestVerifC05Sticky", quick=1600, thorough=24000, timeout_quick=900),
           dict(unit="daemon", test="TestVerifC05Sigkill", quick=160, thorough=1600, timeout_quick=900)],
)
