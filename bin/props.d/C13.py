UNITS = {
    # the package's own tests carry the `privileged` tag and need dummy/ipvlan devices this
    # kernel lacks; the C13 harness files need no tag, so both units build without it
    "c13pure": dict(pkg="./plugin/datapath", tags="default_build", shrinktime="8s"),
    "c13kernel": dict(pkg="./plugin/datapath", tags="default_build", unshare=True, shrinktime="20s"),
}

PROPS = {
    "C13": dict(
        level="exploration",
        technique="property-based testing (rapid): generator output evaluated by an independent reference FIB (rules by priority -> table -> longest prefix); "
                  "real Setup/Check/Teardown in private network namespaces judged by kernel route lookups and rule/route/link dump differences",
        rule="TODO",
        assumptions=[],
        level_text="TODO",
        level_note="TODO",
        tests=[
            dict(unit="c13pure", test="TestVerifC13Routing", quick=20000, thorough=1000000),
            dict(unit="c13kernel", test="TestVerifC13Kernel", quick=160, thorough=5000),
        ],
    ),
}
