UNITS = {
    # the package's own tests carry the `privileged` tag and need dummy/ipvlan devices this
    # kernel lacks; the C13 harness files need no tag, so both units build without it
    "c13pure": dict(pkg="./plugin/datapath", tags="default_build", shrinktime="8s"),
    "c13kernel": dict(pkg="./plugin/datapath", tags="default_build", unshare=True, shrinktime="20s"),
}

PROPS = {
    "C13": dict(
        level="exploration",
        technique="property-based testing (rapid). Tier A: the nic.Conf values returned by the real generate*Cfg functions of all four datapaths "
                  "are loaded into an independent reference FIB (rules by priority -> table -> longest prefix -> oif/gateway, nic.Setup's ensure/replace semantics) "
                  "and the routing intent is decided by lookups; the emitted sysctls must switch router advertisements off (accept_ra=0) on every IPv6 pod interface that faces the ENI segment "
                  "(exclusive ENI, ipvlan, vlan), because 'exactly one default route per enabled family' cannot survive an advertisement otherwise. Tier B: real Setup/Check/GenericTearDown+Teardown of the policy-route (veth) and exclusive-ENI datapaths "
                  "in private network namespaces (a veth pair stands in for the ENI), plus the host-side (init namespace) half of the ipvlan datapath "
                  "(real generateENICfg/ContCfg/SlaveLinkCfg + nic.Setup, createSlaveIfNotExist/setupInitNamespace up to the tc filters, real IPvlanDriver.Teardown; "
                  "veths stand in for the ipvl_<eni> slave and the pod link), judged by the kernel's own route lookups (RTM_GETROUTE with iif/src/oif) and by "
                  "differences of rule/route/link dumps around every teardown; after Setup of an IPv6 pod (exclusive ENI, ipvlan) accept_ra is read inside the pod namespace "
                  "and, once per case, a real router advertisement is sent from the far end of the interface (raw ICMPv6) before the single-default-route check",
        rule="Tier A cases: datapath (policy, ipvlan, exclusive, vlan) x family (v4, v6, dual) x trunk x 1..4 pods with 1..2 interfaces each (MultiNetwork, exactly one carries "
             "DefaultRoute as the daemon guarantees) on 1..2 ENIs (own ENI per interface for exclusive), drawn link indexes (steps up to 70000), addresses in 4- and 16-byte form, "
             "prefix lengths 8..32/8..128, shared or separate subnets, service CIDRs, 0..3 host-stack CIDRs, 0..3 extra routes per interface with/without gateway, "
             "per pod an ingress and an egress bandwidth limit (0 or 1 Mbit/s..1 Gbit/s) and the CNI bandwidth mode (unset/tc/edt). "
             "Tier B cases: policy, exclusive or ipvlan (host side) datapath, family, per-pod ingress/egress bandwidth limits and bandwidth mode (only what this kernel's shapers can run, see level_note), 1..3 pods on one ENI (exclusive: own ENI stand-in each, optionally a second interface eth1), 2..9 operations "
             "setup/check/teardown in drawn order incl. teardown twice and teardown without setup, optional decoy rules (same priorities, wider prefixes containing pod addresses), "
             "TeardownCfg with/without host veth name and with the ENI index real / 0 / stale-positive. Faulty pre-states are drawn too: before Setup the host namespace may still hold "
             "stale prio-512/2048 rules for the pod's own address pointing into another interface's table, or the previous owner's veth with a host route for the pod's IPv4 /32, "
             "or rule pairs in the format of older releases (`from X iif <vanished veth>` prio 2048 + plain `to X` prio 512) for the pod's own address or, from the start, for an unrelated address "
             "(those unrelated legacy rules are nobody's: a teardown may clean them, everything else must survive); "
             "the shared ENI may disappear mid-history (later teardowns get its old index); the ENI of eth1 may carry the host ifindex that eth0 occupies inside the pod (kernel renumbers it); "
             "before about half of the teardowns of a live pod a drawn subset of the pod's own host objects (from/to rule per family, host route per family, host veth) is already gone, "
             "as after an interrupted earlier DEL. non-trivial = dual-stack, or MultiNetwork, or >= 2 pods on one ENI, or extra routes (tier B: and at least one setup). "
             "distinct = distinct scenario hash",
        assumptions=[
            "reference FIB semantics (Linux): rules of a family are walked by ascending priority, equal priorities in insertion order; a rule matches on src/dst prefix, iif, oif; "
            "its table is searched by longest prefix (restricted to the flow's oif when one is bound); no match -> next rule; a rule without selector address is IPv4 unless Rule.Family says otherwise (netlink.RuleAdd); "
            "a gateway without the onlink flag must be covered by a directly connected route on the same device (IPv6 link-local gateways always are)",
            "inputs stay inside what the CNI hands to the datapaths: exactly one interface of a pod carries DefaultRoute and it exists (daemon.defaultForNetConf); HostIPSet, GatewayIP and extra routes "
            "cover exactly the pod's enabled families (utils.GetHostIP(ipv4, ipv6), parseSetupConf); host-stack CIDRs follow the cluster IP stack; all interfaces of a pod use one datapath; "
            "pod addresses, gateways, node address, service / host-stack / extra-route prefixes and the probe destinations 8.8.8.8 / 2001:4860:4860::8888 are pairwise distinct or disjoint by construction",
            "no extra routes are generated for the ipvlan datapath: its generator has no notion of them and its only producer (pkg/eni/local.go) never sets any",
            "policy-route + MultiNetwork (not produced by the daemon): only the outgoing device and table of the per-interface table are checked, not its next hop",
            "tier B teardown mirrors plugin/terway doCmdDel: utils.GenericTearDown on the pod's namespace, then PolicyRoute.Teardown for the policy-route datapath (the CNI has no per-datapath teardown for exclusive ENI); "
            "utils.EnsureHostNsConfig runs before every Setup as in doCmdAdd",
            "router advertisements: delivery is confirmed by the pod namespace's Icmp6InRouterAdvertisements counter (bounded wait, re-sent while the interface waits for its carrier event); "
            "an undelivered advertisement is only counted (label ra:not-delivered:*), never judged; the policy-route pod interface faces the node's veth, not the ENI segment, and is not required to ignore advertisements",
            "kernel-generated IPv6 link-local (fe80::/10) and multicast (ff00::/8) routes are left out of the dumps (they appear asynchronously with DAD)",
        ],
        level_text="generated configurations and setup/teardown histories checked against an independent policy-routing evaluator (all four datapaths) and against the running kernel "
                   "(policy-route and exclusive-ENI datapaths); exploration, not proof",
        level_note="the vlan datapath is checked through its generator only; of the ipvlan datapath the kernel tier runs the init-namespace half (slave configuration, host routes, "
                   "Teardown/teardownInitNamespace) with veth stand-ins, while ipvlan.Setup (link creation), IPvlanDriver.Check and the tc redirect filters of setupFilters cannot execute in this kernel "
                   "(no ipvlan/vlan/dummy devices; the filter add is refused; without an IPv4 service CIDR the steps before setupFilters are mirrored; IPv6 host-stack CIDRs are not passed to the ipvlan "
                   "datapath because setupFilters rejects them); act_vlan is missing, so trunk mode is tier A only. The vlan datapath has no host-side link, "
                   "nothing is asserted for it in the host namespace. Tier A trusts the harness's FIB model and mirrors which generator each Setup applies to which link (read from the Setup bodies). "
                   "In tier B the ENI stand-in is a veth, so GenericTearDown deletes it instead of moving it back: for exclusive ENI only setup routing and removal of the host-side peer are asserted, "
                   "not the return of the ENI. Bandwidth limits are drawn as pod attributes in both tiers only so that the routing oracle also runs on shaped pods: the shaper itself (tbf parameters, fq/mq layout, rates) is not judged, "
                   "tier A does not see it at all (the generators do not consume the limits). The sandbox kernel has sch_tbf and mq but no sch_fq, so the kernel tier does not run policy-route + edt + egress limit "
                   "(ensureMQFQ fails), ipvlan + edt + any limit (ensureFQ fails) and ipvlan + tc + ingress-only (the unchanged IPvlanDriver.Setup calls SetupTC(link, 0) and fails with 'invalid rate 0'); these are dropped to "
                   "'no limit' and counted under labels bw:dropped:*. tc state (vlan tag filters, priority filters, qdiscs) is not part of the dumps. Packets are not sent; lookups decide.",
        tests=[
            dict(unit="c13pure", test="TestVerifC13Routing", quick=20000, thorough=1000000),
            dict(unit="c13kernel", test="TestVerifC13Kernel", quick=400, thorough=5000, timeout_thorough=1500),
            dict(unit="c13pure", test="TestVerifC13KnownOifRule", quick=1, thorough=1, shards=1),
            dict(unit="c13kernel", test="TestVerifC13KnownExclusiveEth1", quick=1, thorough=1, shards=1),
        ],
    ),
}
