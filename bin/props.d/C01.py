UNITS = {"eni": dict(pkg="./pkg/eni", tags="default_build", shrinktime="40s")}

_pool_assume = [
    "cloud simulated at the pkg/factory.Factory level (cloudsim): an error result lists every resource created; (nil, err) means no effect; unassign/delete of something already gone succeeds; addresses are never reused",
    "hard-coded 300 ms batching delay in factoryAllocWorker scaled by a line-preserving source transform of the current file; rate limiter set to unlimited in-package",
    "observations are made at API boundaries (Manager.Allocate/Release returns, factory call arrival); requests that cannot complete are ended by a 250 ms deadline exactly as a CNI timeout would",
]

PROPS = {
    "C01": dict(
        level="exploration",
        technique="model-based stateful property testing (rapid): generated concurrent ADD/DEL/sync/balancer/drift/fault histories against the real eni.Manager+Local over a cloud simulator, checked by an interval ledger of address holders",
        rule="history = 1..8 (thorough 20) rounds of 1..6 concurrently started operations drawn by rapid over a drawn pool configuration (IPv4 / dual stack, IPv6-only in 1/8 of the cases; optional slow metadata lookup and slow unassign calls); operations: ADD, cancelled ADD, DEL, balancer pass, periodic sync, remote removal, cloud fault plan, ADDs with a stale record (the pod holds nothing but the request names the interface and addresses of its last allocation, as daemon.setRequest does when the record delete of a DEL failed), 'slow DEL' (the DEL's walk over the manager's interfaces is held once between two interfaces - a harness-owned schedule point in a pass-through wrapper - while a balancer pass or another pod's ADD is started), and 'late worker' (ADD #1 cancelled, the retry ADD #2 runs while the pool worker of ADD #1 is parked handing its answer over, then the worker notices the cancellation); non-trivial = at least one successful allocation AND (a round with more concurrent allocs than idle addresses, or a drift/fault action, or a stale duplicate release); distinct = distinct scenario hash",
        assumptions=_pool_assume,
        level_text="randomised exploration of concurrent histories with true goroutine concurrency; the ledger invariant (no overlapping holds, provenance, no barred address, repeated ADD returns the same address) is sound under any interleaving; not exhaustive",
        level_note="an overlap that begins and ends strictly inside terway between two harness observations cannot be seen; schedule-dependent failures may not shrink deterministically (history is in the replay trace)",
        tests=[dict(unit="eni", test="TestVerifC01Pool", quick=1600, thorough=20000, timeout_quick=900),
               dict(unit="eni", test="TestVerifC01KnownLeastIPs", quick=1, thorough=1, shards=1)],
    ),
    "C06": dict(
        level="exploration",
        technique="model-based stateful property testing (rapid) with call-time monitors inside the cloud simulator (quota, batch, in-use, primary, trunk/erdma protection)",
        rule="same histories as C01 with more balancer/release steps and WITHOUT cloud fault plans (outside C06's quantifier); environment events kept: remote removal of an address and a metadata answer that omits an address which is still assigned (the periodic sync then marks a held address invalid), slow unassign calls (addresses stay 'being removed' while still assigned); non-trivial = a monitor was evaluated with the interface at its per-interface limit or the node at its interface quota, or a dispose call arrived while at least one address on the node was held; distinct = distinct scenario hash",
        assumptions=_pool_assume,
        level_text="every factory call of every explored history is checked when it arrives against the live-allocation ledger and the configured limits; exploration, not exhaustive",
        level_note="pending-request check on interface deletion reads the Local's queues white-box under its lock",
        tests=[dict(unit="eni", test="TestVerifC06Pool", quick=1600, thorough=20000, timeout_quick=900)],
    ),
    "C07": dict(
        level="fault_enumeration",
        technique="model-based stateful property testing (rapid) with generated fault plans (before-effect, after-effect, partial, quota/exhaustion codes) and request cancellation; pool state compared with simulator ground truth at quiescent points",
        rule="histories as C01 with fault plans and cancelled requests emphasised (incl. 'faulted shrink': balancer passes while the next unassign call of one family fails before it takes effect and the other family's call of the same round succeeds; 'cancelled create': an interface creation that takes long, fails after it took effect, and whose requester is cancelled before it returns; slow create / unassign calls), followed by a settle phase; factory level (TestVerifC07Factory): node histories of Create/Assign/UnAssign/Delete through the real Aliyun factory over a fake OpenAPI and metadata service, with before/after/partial OpenAPI faults and hide/lag/error/ghost/cancel metadata faults, a ledger built from the return values as eni.Local consumes them, cloud subset-of ledger after every call; non-trivial = history with at least one after-effect or partial fault, or a cancelled request; distinct = distinct scenario hash; the production Aliyun factory is driven separately (TestVerifC07Factory / TestVerifC07FactoryAttached): node histories of create/assign/unassign/delete/load calls over a fake OpenAPI and metadata service, plus LoadNetworkInterface with per-family lookup failures inside the node histories, and a one-node test of GetAttachedNetworkInterface with listing / per-interface lookup failures: an answer without error lists exactly what the metadata fake holds; any failed lookup yields an error",
        assumptions=_pool_assume + ["fault placements are drawn, not exhaustively enumerated; band asserted in the form the balancer can reach (idle as it counts it; primaries pinned by in-use siblings excluded from the upper bound)"],
        level_text="fault placements over the cloud-call sequence of each history are sampled by the generator (error before effect, after effect, partial result, per error code), combined with cancellation; at quiescence pool == cloud, no orphan, owners == ledger, idle within band",
        level_note="a case whose settle phase does not reach quiescence within the bounded wait is counted inconclusive - unless the pool is provably idle (no cloud call in flight, call log unchanged and no request queued for one second; the pool workers have no timers) while a slot still holds an interface in status Deleting that can be disposed: then the pool IS quiescent and the interface it gave up was not handed back (a lost wake-up), which is reported",
        tests=[dict(unit="eni", test="TestVerifC07Pool", quick=800, thorough=15000, timeout_quick=900),
               dict(unit="eni", test="TestVerifC07KnownPrimaryAbsorbs", quick=1, thorough=1, shards=1)],
    ),
}
