UNITS = {
    "vswitch": dict(pkg="./pkg/vswitch", tags="default_build"),
    # same package built with the race detector; used for the concurrent rounds only
    "vswitch_race": dict(pkg="./pkg/vswitch", tags="default_build", race=True, shrinktime="10s"),
    # the pod controller's annotation parser (a caller of GetOne, anchor of C17)
    "c17_podctl": dict(pkg="./pkg/controller/pod", tags="default_build"),
    # the daemon's ENI factory (caller of GetOne/Block around the create call, anchor of C17)
    "c17_factory": dict(pkg="./pkg/factory/aliyun", tags="default_build"),
    # the pod-networking controller: a further user of the control plane's one shared SwitchPool
    "c17_podnetworking": dict(pkg="./pkg/controller/pod-networking", tags="default_build"),
}

PROPS = {
    "C17": dict(
        level="exploration",
        technique="property-based testing (rapid): generated GetOne/Block/clock/cloud histories against a reference cache view and a per-policy validity predicate; caller-slice aliasing check; concurrent rounds under the race detector; harness-owned schedules (the fake describe is a gate: held lookups, cancelled waiters, Block, release order) followed by exact sequential probes; the pod controller's real pod-networks annotation path (decoder + ReconcilePod.ParsePodNetworksFromAnnotation + real SwitchPool) checked per network against its own list and policy, followed by the real createENI against a cloud that refuses creates on an exhausted vSwitch (IpNotEnough / QuotaExceeded) so that the controller's own Block is part of the history; the pod-networking controller as a further user of the one shared SwitchPool (real ReconcilePodNetworking.Reconcile over a controller-runtime fake client, interleaved with selections and Block); the daemon ENI factory's real CreateNetworkInterface retry loop (real SwitchPool, fake OpenAPI with stale reported counts and IpNotEnough/QuotaExceeded answers, eni_create backoff shortened through backoff.OverrideBackoff) with every create request checked against the cache view",
        rule="histories of GetOne/Block/advance-clock/cloud-change over 1-3 caller-owned candidate lists (0-8 ids, duplicates, unknown ids) drawn by rapid; "
             "non-trivial = some GetOne saw >= 2 distinct eligible candidates, or a candidate with a live blocked entry, or took the zone fallback; "
             "concurrent rounds: non-trivial = >= 2 goroutines overlapped on one shared slice with >= 2 possibly eligible candidates or a Block; "
             "gated schedules (scripts of start-selection[+Block] / cancel-context / release-held-describe over 1-3 vSwitches, describe calls held by a generated arrival pattern): non-trivial = a context was cancelled while a describe was held, or a Block completed while a describe was still held; "
             "pod-networks histories (pods with 1-4 networks, each with its own candidate list and policy ordered/most/random/unset, optionally continued by createENI where vSwitches whose reported count is stale refuse the create as exhausted; free-count changes, Block of a vSwitch a previous pod got): non-trivial = a pod with >= 2 networks one of which has >= 2 distinct eligible candidates; "
             "shared-pool histories (GetOne / Block / cloud changes / 'PodNetworking pn-k listing ids [...] is created, edited or re-synced' through the real reconciler, one pool with ttl 10m): non-trivial = a PodNetworking listing a blocked vSwitch is synced, or a selection after a sync sees a blocked candidate; "
             "factory histories (candidate list, policy, zone, 1-5 backoff rounds; per vSwitch a reported count and whether create answers exhausted and with which code; CreateNetworkInterface calls, changes of reported count/exhaustion between calls, an occasional non-retryable create error): non-trivial = a create request was answered exhausted while >= 2 distinct candidates were eligible; "
             "distinct = distinct scenario hash",
        assumptions=[
            "client.VPC is a fake that returns VSwitchId equal to the requested id, a fixed zone per id and the current free count, or an error",
            "the cache clock is a fake (cache.NewLRUExpireCacheWithClock); the TTL is an odd number of half units and the clock moves by whole units, so the instant now == expiry is never sampled",
            "every fake answers DescribeVSwitchByID as the real client does (pkg/aliyun/client/vsw_default.go): the id is a filter; no match = not found; an EMPTY id = no filter = the first vSwitch of the account, a foreign one in zone-0 with free addresses",
            "cache capacity (128) is far above the id universe (<= 9): LRU eviction of a blocked entry is out of scope",
            "factory: a successful create is followed by a refused attach (the scenario ends there; attach, metadata service and the InUse wait are not part of C17); the factory's SwitchPool uses the real clock with ttl 10m, nothing expires within a case",
            "a held fake describe returns the context's error when the context it was called with is cancelled (as an SDK call does)",
            "pod-networks: a network that names no policy is held to 'ordered', the documented default of VSwitchSelectOptions (+kubebuilder:default:=ordered); the pod harness uses NewSwitchPool(100, 10m) with the real clock, nothing expires within a case",
        ],
        level_text="generated histories, goroutine rounds, harness-owned lookup schedules with cancellation, and multi-network pod annotations through the real pod-controller parser, all against an independent reference view; exploration, not proof",
        level_note="sequential oracle is exact (first eligible / maximal cached free count / any eligible; error iff none; blocked until expiry). "
                   "Under concurrency only interleaving-independent consequences are demanded (possibly/certainly eligible sets from happens-before stamps) plus the race detector; "
                   "interleavings are sampled (start barrier, Gosched jitter inside describe and before calls), not enumerated. "
                   "Guards (active only while listed in known_findings.json): C17-random-shuffle = policy random gets a private copy of the shared slice and its aliasing check is skipped; "
                   "C17-stale-fill = for an id not cached at round start and blocked while another GetOne is in flight, a completed Block makes the blocked view possible rather than certain. "
                   "Gated schedules: scripted selections are only held to interleaving-independent clauses (in list, right zone, free > 0, not handed out after a Block that had returned before the selection started); "
                   "after all describes are released and every goroutine is joined, probes for every zone/policy are exact (ids reported exhausted stay out with the clock unchanged, and are eligible again after expiry). "
                   "The step-settling wait only shapes which interleaving is explored, no verdict depends on it. "
                   "Pod controller: only ParsePodNetworksFromAnnotation is driven (IgnoreZone is always false there); the PodNetworking-CR path of parse() and the node controller's caller are not. "
                   "Shared pool: the reference view treats a re-describe of an unblocked entry as a refresh (not demanded either way) but keeps a blocked entry blocked whoever looks the vSwitch up; the node controller (pkg/controller/multi-ip/node) as third user of the pool is not driven. "
                   "Factory: every create request must go to a candidate eligible in the cache view at that moment (first eligible for ordered, maximal cached count for most), never to one already answered exhausted; the call may end without an interface only when nothing eligible is left or all backoff rounds were spent on exhausted vSwitches; the eflo factory (eflo.go) and concurrent factory calls are not driven. "
                   "Describe counts (single-flight) are reported as labels, not demanded: the statement does not bound them.",
        tests=[
            dict(unit="vswitch", test="TestVerifC17Select", quick=60000, thorough=2000000),
            dict(unit="vswitch", test="TestVerifC17Gate", quick=8000, thorough=200000, shards_quick=8),
            dict(unit="c17_podctl", test="TestVerifC17PodNetworks", quick=20000, thorough=600000),
            dict(unit="c17_podnetworking", test="TestVerifC17PodNetworking", quick=16000, thorough=500000),
            dict(unit="c17_factory", test="TestVerifC17Factory", quick=8000, thorough=400000),
            dict(unit="vswitch", test="TestVerifC17KnownWitnessShuffle", quick=1, thorough=1, shards=1),
            dict(unit="vswitch", test="TestVerifC17KnownWitnessStaleFill", quick=1, thorough=1, shards=1),
            # GORACE log_path is relative to the shard's working directory (.work/C17-<pid>/, removed afterwards);
            # the harness reads <prefix>.<pid> after every round and turns a report into a violation with a replay
            dict(unit="vswitch_race", test="TestVerifC17Concurrent", quick=4000, thorough=120000,
                 shards_quick=8, env={"GORACE": "log_path=c17race halt_on_error=0"}),
        ],
    ),
}
