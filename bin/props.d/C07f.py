# C07, second level: the production Aliyun factory (pkg/factory/aliyun) as the pool's callee, over a fake
# OpenAPI and a fake metadata service. The property's metadata (level, technique, rule, ...) is defined with the
# pool harness in C01.py; props.py appends these tests to it (files are merged in name order, C01.py first).
UNITS = {
    # the factory's fixed waits (metadata poll/timeout, pauses after attach and before delete) are rewritten by
    # bin/check into verifScale(...) and divided by 100 by the test; if the rewrite is not in effect the test runs
    # three cases per process in real time and skips the rest
    "c07f_factory": dict(pkg="./pkg/factory/aliyun", tags="default_build", shrinktime="30s"),
}

PROPS = {
    "C07": dict(tests=[
        # one case = 2-5 (thorough 2-8) independent node histories of 1-6 (1-10) calls (create/assign/unassign/delete/load), run concurrently
        dict(unit="c07f_factory", test="TestVerifC07Factory", quick=1600, thorough=60000,
             shards_quick=16, shards_thorough=16, timeout_quick=900, timeout_thorough=3000),
        # start-up side: GetAttachedNetworkInterface over the fake metadata service with lookup failures (one node per case)
        dict(unit="c07f_factory", test="TestVerifC07FactoryAttached", quick=3000, thorough=100000),
    ]),
}
