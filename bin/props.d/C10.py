UNITS = {
    # virtual package zz_verif/c10loop (+ export shims zz_verif_c10_export.go in pkg/controller/pod and pkg/controller/pod-eni)
    "c10loop": dict(pkg="./zz_verif/c10loop", tags="default_build", shrinktime="40s"),
}

PROPS = {
    "C10": dict(
        level="exploration",
        technique="property-based testing (rapid): generated pod-lifecycle / reconcile-order / fault histories over the real ReconcilePod and "
                  "ReconcilePodENI (incl. gcCRPodENIs, gcSecondaryENI, gcMemberENI as actions) on one controller-runtime fake client and an ECS simulator; "
                  "oracles: phase-edge recorder on every PodENI write, call-time liveness monitor on every Detach/Delete (record UID and pod instances a successful CNI ADD handed the interface to), a successful CNI ADD must return a record that is Bind for exactly that pod UID, interface/record ledger at every step, end state after settling",
        rule="TestVerifC10ClosedLoop: a case = cluster config (trunk on/off, CRD mode, IP stack, network cards, apparent age of created interfaces, zone of the controller process time.Local = UTC / +8 / -8) + 1..3 pod names with 1..2 interfaces each, a third of them without the pod-eni annotation (served only in CRD mode or on the exclusive-ENI node) "
             "(elastic / fixed TTL / fixed Never, mixed) + a history of about 20 steps (thorough 30) drawn as a shrinkable list: create/delete(terminating)/sandbox-exit/gone per pod, in a third of the histories also Node object removed / registered again (collector passes are favoured while one is missing) or the ECS instance of a node released (its pods and Node object vanish; the cloud deletes the attached interfaces created with DeleteOnRelease and detaches the others), "
             "with a drawn node (same name, new UID, same or other node), ReconcilePod(name), ReconcilePodENI(name), gcCR, gcSecondary, gcMember, CNI ADD for the current pod instance through the real daemon-side Remote.Allocate (pkg/eni/remote.go, wait backoff shortened with backoff.OverrideBackoff), each reconcile step with an optional "
             "cloud fault mask (Create/Attach/Detach/Delete per interface slot, Describe, DescribeVSwitch), API fault mask (Get pod/node/record, List, Create, Update, Patch, status Update/Patch, Delete, read-back failure = every Get of the record after its Create in the same step fails and the reconcile context is cancelled; "
             "internal error or conflict) and an optional action executed INSIDE the step's first cloud call (pod leaves / appears, the other controller runs, or both: pod gone + ReconcilePod while ReconcilePodENI is inside AttachNetworkInterface); cloud fault bits are drawn from the calls the step kind can issue; additionally (attach faults are per interface slot, so one interface of a two-interface pod can be attached while its sibling fails and no instance id reaches the status) an optional cloud outage (one call kind + interface slot fails during a window of steps) and up to 4 entries of the form: the n-th Delete/Detach call of the history fails; then faults off and 8 settle rounds of (ReconcilePod, ReconcilePodENI) per name - or, in a quarter of the cases, the pod controller stays down and 6 rounds of (gcCRPodENIs, ReconcilePodENI per name) must remove every record without fixed IP whose pod is gone (phase Initial / Bind / Deleting) together with its interfaces. "
             "Non-trivial = the history recreates a pod under a used name, or a fault hits between interface creation and record creation (rollback runs), or a pod leaves while its record is "
             "Initial/Binding (deletion racing attachment). TestVerifC10SeededStates: the same interpreter and oracles started from seeded mid-life states; half of the cases end with that pod-controller-down settle, and in a third record 0 is by construction an orphan without fixed IP (elastic allocations only, phase Initial / Bind / Deleting, pod absent); non-trivial there additionally = such an orphan exists when the settle starts (C11's retention generator: 1..3 records in any of the six phases with backdated podLastSeen/creation time and pods absent / alive / exited / terminating, then 1..8 of gcCR, pod events, ReconcilePod, ReconcilePodENI), which reaches what the closed loop cannot within a case: fixed-IP records given up by the TTL collector (phase Deleting) while the pod controller still reconciles the dead pod; non-trivial there = last-seen age within 30 s of a TTL boundary or >= 2 allocations with different strategies. distinct = distinct scenario hash",
        assumptions=[
            "documented machine = the diagram in pkg/apis/network.alibabacloud.com/v1beta1/types.go: Initial->Bind, Bind->Detaching, Detaching->Unbind, Unbind->Binding, Binding->Bind, any->Deleting; "
            "a record is removed only from Deleting or with deletionTimestamp set; identical rewrites are ignored; 'bound' additionally means the interfaces are attached to status.instanceID",
            "a pod is 'still running' iff a pod object with the record's namespace/name and the UID in the record's pod-uid annotation exists and its phase is neither Succeeded nor Failed "
            "(utils.PodSandboxExited); a terminating pod (deletionTimestamp set) is still running",
            "cloud contract modelled from pkg/aliyun/client: Detach of a missing/unattached interface succeeds (the real client maps InvalidEniId.NotFound to nil), Delete of an in-use interface fails with "
            "InvalidOperation.InvalidEniState, Delete of a missing interface and a repeated Attach to the same instance succeed, attach/detach complete instantly; injected errors have no effect on the cloud "
            "(fail-before-effect only)",
            "an interface whose rollback delete was itself failed by injection may remain without a record (nothing could delete it; it carries the controller tags for the leak collector) - counted under label leak:rollback-delete-failed",
        ],
        level_text="about 4000 generated histories per quick run (150000 thorough) of the two real reconcilers in every drawn order with cloud and API faults, each step checked; exploration, not proof",
        level_note="the controllers read through the same client they write (no informer-cache staleness); the two controllers run sequentially except for one drawn action nested inside a cloud call; "
                   "work-queue retry timing, leader election, real ECS asynchrony is not modelled; the daemon side is reduced to Remote.Allocate with an idle control plane during its wait; error results after a cloud effect (timeouts) are not injected; "
                   "liveness is only checked as bounded settling (8 rounds)",
        tests=[dict(unit="c10loop", test="TestVerifC10ClosedLoop", quick=4000, thorough=150000),
               dict(unit="c10loop", test="TestVerifC10SeededStates", quick=3000, thorough=60000),
               dict(unit="c10loop", test="TestVerifC10KnownDetachingFromNonBind", quick=1, thorough=1, shards=1),
               dict(unit="c10loop", test="TestVerifC10KnownDetachingFromUnbind", quick=1, thorough=1, shards=1),
               dict(unit="c10loop", test="TestVerifC10KnownRollbackStops", quick=1, thorough=1, shards=1)],
    ),
}
