UNITS = {
    "c10loop": dict(pkg="./zz_verif/c10loop", tags="default_build", shrinktime="40s"),
}

PROPS = {
    "C10": dict(
        level="exploration",
        technique="property-based testing (rapid): generated pod/controller/fault histories over the real pod and PodENI reconcilers, "
                  "checked by a phase-edge recorder, a call-time liveness monitor on the simulated cloud and end-state ledgers",
        rule="placeholder",
        assumptions=[],
        level_text="placeholder",
        level_note="placeholder",
        tests=[dict(unit="c10loop", test="TestVerifC10ClosedLoop", quick=1200, thorough=40000),
               dict(unit="c10loop", test="TestVerifC10KnownDetachingFromNonBind", quick=1, thorough=1, shards=1),
               dict(unit="c10loop", test="TestVerifC10KnownRollbackStops", quick=1, thorough=1, shards=1)],
    ),
}
