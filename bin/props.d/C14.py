UNITS = {
    "ip": dict(pkg="./pkg/ip", tags="default_build"),
    "c14ip_race": dict(pkg="./pkg/ip", tags="default_build", race=True, shrinktime="10s"),
    "c14tc": dict(pkg="./pkg/tc", tags="default_build"),
    "c14link": dict(pkg="./pkg/link", tags="default_build"),
    # the package's own tests are tagged `privileged` (they need netlink/netns); the C14
    # harness only calls pure functions, so the unit is built without that tag
    "c14datapath": dict(pkg="./plugin/datapath", tags="default_build"),
    "c14drvutils": dict(pkg="./plugin/driver/utils", tags="default_build"),
}

PROPS = {
    "C14": dict(
        level="exploration",
        technique="property-based testing (rapid; gateway derivation also under goroutine stress, also built with -race) plus, in the thorough tier, native coverage-guided go fuzzing: differential against bit-level / big-integer reference models; structural check of the routing-table numbers in generated datapath configs",
        rule="cases drawn by rapid generators. Classifier cases: a CIDR (every prefix 0..32/0..128, byte/word boundaries and neighbours over-represented, "
             "IPNet with/without host bits, IPv4 in 4- and 16-byte form) plus 1..4 probe addresses (inside; inside with one bit flipped at prefix boundary -2..+2; arbitrary) "
             "in a header whose other address field holds an unrelated/inside/complement address; non-trivial = prefix length not a multiple of 8 (IPv4) / 32 (IPv6) or a one-bit-flip probe. "
             "Reuse/lookup cases (which installed filter ends up classifying a CIDR): IPv4 CIDR pairs (wanted B, installed A = same CIDR written differently / same base with another prefix length / "
             "nested inside B / one network bit flipped / independent): ipvlan redirectRule.isMatch may accept A's real toU32Filter() for B only if A's keys pass B's packet-level oracle (B's probes plus the first/last "
             "addresses of A and B and their neighbours across B's boundary), and must accept B's own filter; pod-address lookups (1..4 installed /32 or /128 source filters built by MatchSrc, addresses equal / one bit apart / "
             "sharing 1..3 leading 32-bit words / differing only in the last word / arbitrary; the search loop of EnsureVlanTag and FilterBySrcIP over a slice with the real tc.Contain): the filter returned for B must match exactly packets "
             "from B (probes: B, every installed address, first and last bit of every word flipped), and B's own filter must be found; non-trivial = related pair / an installed address equal to or sharing a leading word with B. "
             "Concurrent gateway cases: 2..8 generated subnets (IPv4 three times as likely as IPv6), one goroutine each, released together from a spin barrier and calling DeriveGatewayIP / GetIPAtIndex 200..600 times back to back; "
             "every answer is compared with the big-integer reference and with the answer of the same subnet computed alone beforehand; the same test also runs in a unit built with -race; non-trivial = >= 2 distinct subnets. "
             "Gateway cases: non-trivial = prefix not byte aligned, subnet with <= 2 host bits, or network with a leading zero byte. "
             "Table-id cases: 1..8 link indexes incl. neighbours and values equal modulo 2^8/2^16/1000; non-trivial = >= 2 distinct indexes. "
             "Per-interface-table cases: a pod of 1..4 interfaces with distinct link indexes (steps 1/2/256/1000/65536), each with a datapath (ipvlan, exclusive ENI, veth+policy route, vlan), "
             "family (IPv4 only / IPv6 only / dual), strip-vlan, extra routes, pod-wide MultiNetwork on/off and one default-route interface; the real config generators run on fake links and every rule / "
             "non-main-table route must name GetRouteTableID(that link's index), each family of a multi-network interface must have its source rule and default route in that table, interfaces never share a table "
             "(veth host side: same per ENI); non-trivial = MultiNetwork with >= 2 interfaces or an IPv6-only interface. "
             "Name cases: (namespace = DNS label of 1..63 bytes, pod name = DNS subdomain of 1..253 bytes with lengths around 63, 110..160 and 245..253 over-represented, or arbitrary strings; prefix <= 4 bytes, 1..8 interface names incl. ones differing in the last byte); non-trivial = >= 2 distinct interfaces. distinct = distinct scenario hash",
        assumptions=[
            "tc u32 semantics: a key matches when the big-endian 32-bit word at byte offset Off of the network header ANDed with Mask equals Val; keys are ANDed; an empty key list matches every packet; IPv4 src/dst at 12/16, IPv6 src/dst at 8/24",
            "net.IP cannot tell an IPv4-mapped IPv6 address (::ffff:a.b.c.d) from IPv4, so neither terway nor the reference can name one as IPv6: "
            "classifier CIDRs whose address is IPv4-mapped are not generated, and gateway/index queries on IPv6 subnets whose start address (first for index >= 0, last for index < 0) "
            "or expected result lies in ::ffff:0:0/96 are generated, counted (label outside-domain:*) and not judged",
            "interface-name prefixes are at most 4 bytes (every caller passes \"cali\")",
        ],
        level_text="generated addresses/prefixes/indexes/names checked against independent bit-level and big-integer reference models, and generated pod interface sets run through the datapath config generators to check the table number each interface actually gets; exploration, not proof",
        level_note="trusts Go's net and math/big as the reference; u32 semantics modelled (value/mask at byte offset into the IP header), not executed in the kernel; tc.FilterBySrcIP and the netlink list/add/delete steps of setupFilters / EnsureVlanTag / SetFilter / DelFilter need cls_u32 and are not run: their key comparison is exercised through tc.Contain and redirectRule.isMatch on filters kept in a slice, for single-family filter sets and the /32 and /128 host networks the callers pass; "
                   "the model demands keys in canonical form (Val has no bit outside Mask), which is what cls_u32's ((word^Val)&Mask)==0 reduces to for such keys; "
                   "name distinctness is checked per pod over sampled interface names (the name keeps 44 bits of a hash, so distinctness is probabilistic by design); "
                   "determinism is checked inside one process only; the goroutine stress overlaps calls by repetition, not by an owned schedule: a race that needs a preemption between two specific instructions may be missed (a data race reported only by the race detector, with no deviating value, ends the shard as inconclusive, not as a violation)",
        tests=[
            dict(unit="ip", test="TestVerifC14Gateway", quick=40000, thorough=4000000),
            dict(unit="ip", test="TestVerifC14GatewayConcurrent", quick=2400, thorough=60000),
            dict(unit="c14ip_race", test="TestVerifC14GatewayConcurrentRace", quick=320, thorough=6000),
            dict(unit="c14tc", test="TestVerifC14U32Src", quick=80000, thorough=4000000),
            dict(unit="c14datapath", test="TestVerifC14DstIPRule", quick=40000, thorough=2000000),
            dict(unit="c14tc", test="TestVerifC14SrcFilterLookup", quick=24000, thorough=1500000),
            dict(unit="c14datapath", test="TestVerifC14DstRuleReuse", quick=24000, thorough=1500000),
            dict(unit="c14drvutils", test="TestVerifC14RouteTableID", quick=8000, thorough=400000),
            dict(unit="c14datapath", test="TestVerifC14IfaceTables", quick=16000, thorough=800000),
            dict(unit="c14link", test="TestVerifC14VethName", quick=24000, thorough=1000000),
            # thorough tier only: native coverage-guided fuzzing of the same oracles
            dict(unit="c14tc", fuzz="FuzzVerifC14U32Src", seconds=45),
            dict(unit="ip", fuzz="FuzzVerifC14Gateway", seconds=45),
        ],
    ),
}
