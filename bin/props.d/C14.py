UNITS = {
    "ip": dict(pkg="./pkg/ip", tags="default_build"),
}

PROPS = {
    "C14": dict(
        level="exploration",
        technique="property-based testing (rapid): differential against bit-level / big-integer reference models",
        rule="cases drawn by rapid generators; non-trivial = prefix length not byte aligned, or subnet with <= 2 host bits, or network with a leading zero byte; distinct = distinct scenario hash",
        assumptions=[],
        level_text="generated addresses/prefixes/names checked against independent bit-level and big-integer reference models; exploration, not proof",
        level_note="trusts Go's net, math/big and crypto/sha1 as the reference; u32 semantics modelled as value/mask at byte offset into the IP header",
        tests=[
            dict(unit="ip", test="TestVerifC14Gateway", quick=40000, thorough=4000000),
        ],
    ),
}
