UNITS = {
    # own unit names: other properties may register the same packages with other settings
    "c19_client": dict(pkg="./pkg/aliyun/client", tags="default_build"),
    "c19_daemon": dict(pkg="./daemon", tags="default_build", unshare=True),
    "c19_eni": dict(pkg="./pkg/eni", tags="default_build", unshare=True),
    "c19_ctlnode": dict(pkg="./pkg/controller/node", tags="default_build"),
}

PROPS = {
    "C19": dict(
        level="exploration",
        technique="property-based testing (rapid): generated instance-type vectors x configurations run through the real "
                  "capacity arithmetic (limits; legacy daemon builder steps InitService / node-label handling / "
                  "initInstanceLimit / getPoolConfig / initTrunk over an in-memory factory; the LingJun path: real EFLO limit "
                  "provider over a fake GetNodeInfoForPod answer + getPoolConfig, differential against the node "
                  "controller's handleEFLO on the same answer; Node CR flavor; node annotations and extended resources, incl. an "
                  "in-place instance-type change), checked against inequalities computed from the raw vector",
        rule="cases drawn by rapid generators (instance-type description, EFLO node-info answers with independent "
             "LeniQuota / LniSipQuota / LeniSipQuota / HdeniQuota / Quota incl. zeros, daemon/controller config, node labels incl. "
             "exclusive-ENI mode on daemon and controller side, attached-ENI status, interfaces attached to the node "
             "when the daemon starts (secondary / ERDMA / trunk, full or with free slots), factory create faults, optional resize of the same instance "
             "to another generated type); non-trivial = at least one requested feature the instance type lacks, or a "
             "configured maximum (max_eni / pool size / min_eni) above the instance limit, or a junk limit field, or a "
             "resize to a smaller type, or trunking asked for on a node without a free interface slot; "
             "distinct = distinct scenario hash",
        assumptions=[
            "instance types have at least one interface and one IPv4 address per interface; pool sizes are >= 0",
            "LingJun reference: interfaces = LeniQuota, addresses per interface = LniSipQuota, taken from the two "
            "independent readers of the unchanged tree (daemon EfloLimitProvider, controller handleEFLO) and the "
            "repository's controller tests; the SDK documents neither field. Independently the two readers must agree",
            "hard oracle at eni_cap_ratio=1 / eni_cap_shift=0 (after Populate); for ratio <= 1, shift <= 0 the outputs "
            "are only required not to exceed the default-ratio outputs",
        ],
        level_text="generated limit vectors and configurations checked against an independent arithmetic reference "
                   "at four call sites (the daemon one through the real NetworkServiceBuilder steps, so every step sees "
                   "the daemon mode the builder hands it; IPv6 is held against the pool that is actually sized: "
                   "MaxIPPerENI <= IPv6 per interface; interfaces attached + created by initTrunk <= attachable secondary "
                   "interfaces, trunking off when no slot is free) and through a closed loop (controller -> daemon-side reconcile -> controller) "
                   "over the in-memory API server; exploration, not proof",
        level_note="the LingJun limits are obtained by calling LimitProviders[\"eflo\"].GetLimit directly as initInstanceLimit "
                   "does (b.aliyunClient is a concrete OpenAPI client and cannot be faked inside the builder); "
                   "k8s.NewK8S needs an API server: the two node-label statements of InitK8S are replayed verbatim on a "
                   "stub k8s.Kubernetes; limits reach the daemon through the node annotation only (b.aliyunClient is a "
                   "concrete OpenAPI client); builder.go:334-356 (ERDMA/annotation arithmetic interleaved with cloud and metadata calls) and the "
                   "count handed to the ERDMA device plugin are not reachable; the node capability file is replaced by "
                   "in-memory nodecap settings; the fake client stands in for the API server",
        tests=[
            dict(unit="c19_client", test="TestVerifC19Limits", quick=100000, thorough=2000000),
            dict(unit="c19_daemon", test="TestVerifC19Pool", quick=100000, thorough=2000000),
            dict(unit="c19_daemon", test="TestVerifC19LingJun", quick=12000, thorough=300000),
            dict(unit="c19_ctlnode", test="TestVerifC19NodeAnno", quick=16000, thorough=300000),
            dict(unit="c19_eni", test="TestVerifC19NodeReconcile", quick=16000, thorough=300000),
            dict(unit="c19_eni", test="TestVerifC19ClosedLoop", quick=16000, thorough=300000),
            dict(unit="c19_eni", test="TestVerifC19KnownWitnessIPv6Only", quick=1, thorough=1, shards=1),
            dict(unit="c19_eni", test="TestVerifC19KnownWitnessCRDPool", quick=1, thorough=1, shards=1),
        ],
    ),
}
