"""Registry of harness units (one test binary each) and of the tests that decide each property.

Each file bin/props.d/*.py defines UNITS (name -> dict(pkg, tags, race?, unshare?, shrinktime?, steps?, vmem_kb?))
and PROPS (id -> dict(level, technique, rule, assumptions, level_text, level_note, tests=[dict(unit, test, quick, thorough,
shards?, shards_quick?, shards_thorough?, timeout_quick?, timeout_thorough?, env?)])).  They are merged here.
"""
import glob, os

UNITS, PROPS = {}, {}
for _f in sorted(glob.glob(os.path.join(os.path.dirname(os.path.abspath(__file__)), "props.d", "*.py"))):
    _g = {}
    with open(_f) as _fh:
        exec(compile(_fh.read(), _f, "exec"), _g)
    for _k, _v in _g.get("UNITS", {}).items():
        if _k in UNITS and UNITS[_k] != _v:
            raise SystemExit("unit %s defined twice with different settings (%s)" % (_k, _f))
        UNITS[_k] = _v
    for _k, _v in _g.get("PROPS", {}).items():
        if _k in PROPS:
            PROPS[_k]["tests"] += _v["tests"]
        else:
            PROPS[_k] = _v

# properties whose checks have been accepted by the lead (silent on the unchanged tree,
# sensitivity-tested); only these are claimed in MANIFEST.json
with open(os.path.join(os.path.dirname(os.path.abspath(__file__)), "props.d", "READY")) as _fh:
    READY = [l.strip() for l in _fh if l.strip() and not l.startswith("#")]

NOT_APPLICABLE = {k: "check not finished yet (work in progress; see DESIGN.md)"
                  for k in ["C%02d" % i for i in range(1, 21)] if k not in PROPS or k not in READY}
