"""Registry of harness units (one test binary each) and of the tests that decide each property."""

UNITS = {
    "ip": dict(pkg="./pkg/ip", tags="default_build"),
}

PROPS = {
    "C14": dict(
        level="exploration",
        technique="property-based testing (rapid): differential against bit-level / big-integer reference models",
        rule="cases drawn by rapid generators; non-trivial = prefix length not byte aligned, or subnet with <= 2 host bits, or network with a leading zero byte; distinct = distinct scenario hash",
        assumptions=[],
        level_text="generated addresses/prefixes/names checked against independent bit-level and big-integer reference models; exploration, not proof",
        level_note="trusts Go's net, math/big and crypto/sha1 as the reference; u32 semantics modelled as value/mask at byte offset into the IP header",
        tests=[
            dict(unit="ip", test="TestVerifC14Gateway", quick=40000, thorough=4000000),
        ],
    ),
}

NOT_APPLICABLE = {k: "check not built yet (work in progress; see DESIGN.md)" for k in ["C01", "C02", "C03", "C04", "C05", "C06", "C07", "C08", "C09", "C10", "C11", "C12", "C13", "C14", "C15", "C16", "C17", "C18", "C19", "C20"] if k not in PROPS}
